// pgconfirm: PostgreSQL's own parser (pg_query_go = the PostgreSQL 15 grammar) as the referee for
// SQL-syntax claims. Reads one JSON request per line {"sql": "..."}; the text is placed inside
// SELECT 1 FROM t WHERE (<sql>) after rewriting standalone ? placeholders to $n, parsed, and the
// reply lists statement count, every node kind in the WHERE clause, column references, constants
// and the number of parameters.
package main

import (
	"bufio"
	"encoding/json"
	"fmt"
	"os"
	"sort"
	"strings"
	"unicode/utf8"

	pg_query "github.com/pganalyze/pg_query_go/v4"
)

type req struct {
	SQL string `json:"sql"`
}

type resp struct {
	OK         bool     `json:"ok"`
	Error      string   `json:"error,omitempty"`
	Statements int      `json:"statements"`
	Kinds      []string `json:"kinds"`
	Columns    []string `json:"columns"`
	Strings    []string `json:"strings"`
	Numbers    []string `json:"numbers"`
	Params     int      `json:"params"`
	Confined   bool     `json:"confined"`
	Shape      string   `json:"shape"`
}

var allowed = map[string]bool{"BoolExpr": true, "A_Expr": true, "ColumnRef": true, "A_Const": true, "List": true, "String": true, "ParamRef": true,
	"Integer": true, "Float": true}

// rewriteParams turns ? outside quoted identifiers and string constants into $1, $2, ...
func rewriteParams(sql string) string {
	var sb strings.Builder
	inIdent, inStr := false, false
	n := 0
	for i := 0; i < len(sql); i++ {
		c := sql[i]
		if c == '"' && !inStr {
			inIdent = !inIdent
		} else if c == '\'' && !inIdent {
			inStr = !inStr
		}
		if c == '?' && !inIdent && !inStr {
			n++
			fmt.Fprintf(&sb, "$%d", n)
			continue
		}
		sb.WriteByte(c)
	}
	return sb.String()
}

type walker struct {
	kinds   map[string]bool
	r       *resp
	funcs   []string
	ops     []string
}

func (w *walker) walk(v interface{}) {
	switch x := v.(type) {
	case map[string]interface{}:
		for k, val := range x {
			if len(k) > 0 && k[0] >= 'A' && k[0] <= 'Z' {
				w.kinds[k] = true
				switch k {
				case "ColumnRef":
					w.r.Columns = append(w.r.Columns, columnName(val))
				case "A_Const":
					w.constant(val)
				case "ParamRef":
					w.r.Params++
				case "FuncCall":
					w.funcs = append(w.funcs, funcName(val))
				case "A_Expr":
					w.ops = append(w.ops, exprOp(val))
				}
			}
			w.walk(val)
		}
	case []interface{}:
		for _, e := range x {
			w.walk(e)
		}
	}
}

func columnName(v interface{}) string {
	m, _ := v.(map[string]interface{})
	fields, _ := m["fields"].([]interface{})
	var parts []string
	for _, f := range fields {
		fm, _ := f.(map[string]interface{})
		if s, ok := fm["String"].(map[string]interface{}); ok {
			parts = append(parts, fmt.Sprint(s["sval"]))
		} else {
			parts = append(parts, "\x00not-a-name")
		}
	}
	return strings.Join(parts, "\x00.")
}

// exprOp: "KIND:opname" of an A_Expr
func exprOp(v interface{}) string {
	m, _ := v.(map[string]interface{})
	kind, _ := m["kind"].(string)
	names, _ := m["name"].([]interface{})
	var parts []string
	for _, f := range names {
		fm, _ := f.(map[string]interface{})
		if s, ok := fm["String"].(map[string]interface{}); ok {
			parts = append(parts, fmt.Sprint(s["sval"]))
		}
	}
	unary := ""
	if _, hasL := m["lexpr"]; !hasL {
		unary = "unary"
	}
	return kind + ":" + strings.Join(parts, ".") + unary
}

var allowedOps = map[string]bool{"AEXPR_OP:=": true, "AEXPR_OP:<": true, "AEXPR_OP:>": true, "AEXPR_OP:<=": true, "AEXPR_OP:>=": true, "AEXPR_OP:~": true,
	"AEXPR_BETWEEN:BETWEEN": true, "AEXPR_IN:=": true, "AEXPR_SIMILAR:~": true}

func funcName(v interface{}) string {
	m, _ := v.(map[string]interface{})
	names, _ := m["funcname"].([]interface{})
	var parts []string
	for _, f := range names {
		fm, _ := f.(map[string]interface{})
		if s, ok := fm["String"].(map[string]interface{}); ok {
			parts = append(parts, fmt.Sprint(s["sval"]))
		}
	}
	return strings.Join(parts, ".")
}

func (w *walker) constant(v interface{}) {
	m, _ := v.(map[string]interface{})
	if s, ok := m["sval"].(map[string]interface{}); ok {
		sv, _ := s["sval"].(string)
		w.r.Strings = append(w.r.Strings, sv)
		return
	}
	if s, ok := m["ival"].(map[string]interface{}); ok {
		if iv, ok := s["ival"]; ok {
			w.r.Numbers = append(w.r.Numbers, fmt.Sprint(iv))
		} else {
			w.r.Numbers = append(w.r.Numbers, "0")
		}
		return
	}
	if s, ok := m["fval"].(map[string]interface{}); ok {
		w.r.Numbers = append(w.r.Numbers, fmt.Sprint(s["fval"]))
		return
	}
	w.r.Numbers = append(w.r.Numbers, "?")
}

func handle(sql string) resp {
	r := resp{}
	// a server with encoding UTF8 verifies the query text before parsing it; a NUL byte ends it
	if !utf8.ValidString(sql) || strings.Contains(sql, "\x00") {
		r.Error = "query text is not valid UTF-8 or contains a NUL byte"
		return r
	}
	full := "SELECT 1 FROM t WHERE (" + rewriteParams(sql) + ")"
	js, err := pg_query.ParseToJSON(full)
	if err != nil {
		r.Error = err.Error()
		return r
	}
	var tree map[string]interface{}
	if err := json.Unmarshal([]byte(js), &tree); err != nil {
		r.Error = err.Error()
		return r
	}
	stmts, _ := tree["stmts"].([]interface{})
	r.Statements = len(stmts)
	r.OK = true
	if len(stmts) != 1 {
		return r
	}
	st, _ := stmts[0].(map[string]interface{})
	stmt, _ := st["stmt"].(map[string]interface{})
	sel, isSel := stmt["SelectStmt"].(map[string]interface{})
	if !isSel {
		r.Shape = "not a SelectStmt"
		return r
	}
	// exactly the skeleton: targetList [1], fromClause [t], whereClause, nothing else
	for k := range sel {
		switch k {
		case "targetList", "fromClause", "whereClause", "limitOption", "op":
		default:
			r.Shape += "extra clause " + k + "; "
		}
	}
	w := &walker{kinds: map[string]bool{}, r: &r}
	w.walk(sel["whereClause"])
	for k := range w.kinds {
		r.Kinds = append(r.Kinds, k)
	}
	sort.Strings(r.Kinds)
	r.Confined = r.Shape == ""
	for _, k := range r.Kinds {
		if !allowed[k] {
			// SIMILAR TO is represented with PostgreSQL's own similar_to_escape() call
			if k == "FuncCall" {
				okf := true
				for _, f := range w.funcs {
					if f != "pg_catalog.similar_to_escape" {
						okf = false
					}
				}
				if okf {
					continue
				}
			}
			r.Confined = false
		}
	}
	for _, c := range r.Columns {
		if strings.Contains(c, "\x00") { // qualified name, star, or another non-name field
			r.Confined = false
		}
	}
	for _, o := range w.ops {
		if !allowedOps[o] {
			r.Confined = false
			r.Shape += "operator " + o + "; "
		}
	}
	return r
}

func main() {
	sc := bufio.NewScanner(os.Stdin)
	sc.Buffer(make([]byte, 1<<20), 1<<24)
	out := bufio.NewWriter(os.Stdout)
	defer out.Flush()
	for sc.Scan() {
		var q req
		if err := json.Unmarshal(sc.Bytes(), &q); err != nil {
			fmt.Fprintln(out, `{"ok":false,"error":"bad request"}`)
			continue
		}
		b, _ := json.Marshal(handle(q.SQL))
		out.Write(b)
		out.WriteByte('\n')
		out.Flush()
	}
}
