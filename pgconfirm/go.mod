module verif/pgconfirm

go 1.22

require github.com/pganalyze/pg_query_go/v4 v4.2.3

require (
	github.com/golang/protobuf v1.4.2 // indirect
	google.golang.org/protobuf v1.23.0 // indirect
)
