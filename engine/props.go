package main

// Which harnesses decide which property, with which bounds, per tier.

var c01ids = []string{"no-panic", "string-no-marker", "gostring-no-marker"}
var c10ids = []string{"parse-xor", "validates", "shape", "render-xor", "param-error-empty"}

func withOnly(rs []hrun, only []string, panics bool) []hrun {
	out := make([]hrun, len(rs))
	for i, r := range rs {
		r.Only = only
		r.Panics = panics
		out[i] = r
	}
	return out
}

func ctxRuns(thorough bool) []hrun {
	var r []hrun
	for df := 0; df <= 1; df++ {
		for c := 0; c < 19; c++ {
			r = append(r, hrun{Harness: "ParseCtx", Params: P("CTX", c, "S", 1, "DF", df)})
			if (df == 0 || thorough) && c != 2 { // context 2 has two holes: S=2 would be four free slots
				r = append(r, hrun{Harness: "ParseCtx", Params: P("CTX", c, "S", 2, "DF", df)})
			}
		}
	}
	return r
}

func parseRuns(thorough bool) []hrun {
	var r []hrun
	maxN := 3
	if thorough {
		maxN = 4
	}
	for df := 0; df <= 1; df++ {
		for n := 0; n <= maxN; n++ {
			r = append(r, hrun{Harness: "ParseBytes", Params: P("N", n, "DF", df), Panics: true})
		}
		r = append(r, hrun{Harness: "ParseTokens", Params: P("K", 1, "DF", df, "WIDE", 1), Panics: true})
		maxK := 2
		if thorough {
			maxK = 3
		}
		for k := 1; k <= maxK; k++ {
			r = append(r, hrun{Harness: "ParseTokens", Params: P("K", k, "DF", df, "WIDE", 0), Panics: true})
		}
	}
	return r
}

var props = map[string]propCfg{
	"C01": {
		Quick:    withOnly(append(parseRuns(false), ctxRuns(false)...), c01ids, true),
		Thorough: withOnly(append(parseRuns(true), ctxRuns(true)...), c01ids, true),
		Bounds:   "all byte strings of length <= 3 (quick) / <= 4 (thorough); one token with every literal content of <= 3 bytes; token sequences of <= 2 (quick) / <= 3 (thorough) tokens over 20 token shapes with symbolic literal bytes; with and without a default field; consumers String, %#v, Render, RenderParam",
		Outside:  "longer inputs; asymptotic running time; symbolic decimal floats (cut); JSON encoding (see C12)",
	},
	"C10": {
		Quick:    withOnly(append(parseRuns(false), ctxRuns(false)...), c10ids, false),
		Thorough: withOnly(append(parseRuns(true), ctxRuns(true)...), c10ids, false),
		Bounds:   "as C01: all byte strings <= 3/4, token sequences <= 2/3, and 1-2 free token slots inside 19 bracket/operator contexts (range bounds, groups, field values, prefix/suffix operators), with and without default field",
		Outside:  "longer inputs; garbage needing more than 2 free tokens in one place",
	},
	"C16": {
		Quick:    []hrun{{Harness: "LexSegment", Params: P("N", 0)}, {Harness: "LexSegment", Params: P("N", 1)}, {Harness: "LexSegment", Params: P("N", 2)}, {Harness: "LexSegment", Params: P("N", 3)}},
		Thorough: []hrun{{Harness: "LexSegment", Params: P("N", 0)}, {Harness: "LexSegment", Params: P("N", 1)}, {Harness: "LexSegment", Params: P("N", 2)}, {Harness: "LexSegment", Params: P("N", 3)}, {Harness: "LexSegment", Params: P("N", 4)}},
		Bounds:   "all byte strings (all 256 values per byte) of length <= 3 (quick) / <= 4 (thorough); every Peek/Next step up to N+2 tokens",
		Outside:  "inputs longer than the bound",
	},
}
