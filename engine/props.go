package main

// Which harnesses decide which property, with which bounds, per tier.

func parseRuns(thorough bool) []hrun {
	var r []hrun
	maxN := 3
	if thorough {
		maxN = 4
	}
	for df := 0; df <= 1; df++ {
		for n := 0; n <= maxN; n++ {
			r = append(r, hrun{Harness: "ParseBytes", Params: P("N", n, "DF", df), Panics: true})
		}
		r = append(r, hrun{Harness: "ParseTokens", Params: P("K", 1, "DF", df, "WIDE", 1), Panics: true})
		maxK := 2
		if thorough {
			maxK = 3
		}
		for k := 1; k <= maxK; k++ {
			r = append(r, hrun{Harness: "ParseTokens", Params: P("K", k, "DF", df, "WIDE", 0), Panics: true})
		}
	}
	return r
}

var props = map[string]propCfg{
	"C01": {
		Quick:    parseRuns(false),
		Thorough: parseRuns(true),
		Bounds:   "all byte strings of length <= 3 (quick) / <= 4 (thorough); one token with every literal content of <= 3 bytes; token sequences of <= 2 (quick) / <= 3 (thorough) tokens over 20 token shapes with symbolic literal bytes; with and without a default field; consumers String, %#v, Render, RenderParam",
		Outside:  "longer inputs; asymptotic running time; symbolic decimal floats (cut); JSON encoding (see C12)",
	},
	"C16": {
		Quick:    []hrun{{Harness: "LexSegment", Params: P("N", 0)}, {Harness: "LexSegment", Params: P("N", 1)}, {Harness: "LexSegment", Params: P("N", 2)}, {Harness: "LexSegment", Params: P("N", 3)}},
		Thorough: []hrun{{Harness: "LexSegment", Params: P("N", 0)}, {Harness: "LexSegment", Params: P("N", 1)}, {Harness: "LexSegment", Params: P("N", 2)}, {Harness: "LexSegment", Params: P("N", 3)}, {Harness: "LexSegment", Params: P("N", 4)}},
		Bounds:   "all byte strings (all 256 values per byte) of length <= 3 (quick) / <= 4 (thorough); every Peek/Next step up to N+2 tokens",
		Outside:  "inputs longer than the bound",
	},
}
