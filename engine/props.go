package main

// Which harnesses decide which property, with which bounds, per tier.

var props = map[string]propCfg{
	"C16": {
		Quick:    []hrun{{Harness: "LexSegment", Params: P("N", 0)}, {Harness: "LexSegment", Params: P("N", 1)}, {Harness: "LexSegment", Params: P("N", 2)}, {Harness: "LexSegment", Params: P("N", 3)}},
		Thorough: []hrun{{Harness: "LexSegment", Params: P("N", 0)}, {Harness: "LexSegment", Params: P("N", 1)}, {Harness: "LexSegment", Params: P("N", 2)}, {Harness: "LexSegment", Params: P("N", 3)}, {Harness: "LexSegment", Params: P("N", 4)}},
		Bounds:   "all byte strings (all 256 values per byte) of length <= 3 (quick) / <= 4 (thorough); every Peek/Next step up to N+2 tokens",
		Outside:  "inputs longer than the bound",
	},
}
