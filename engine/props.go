package main

// Which harnesses decide which property, with which bounds, per tier.

var c01ids = []string{"no-panic", "string-no-marker", "gostring-no-marker", "json-no-marker", "terminates-within-budget"}
var c10ids = []string{"parse-xor", "validates", "shape", "render-xor", "param-error-empty", "topostgres-xor", "toparam-error-empty", "toparam-xor", "rejected-by-all"}

// withOnlyFree: as withOnly; the assertions of the other properties sharing the harness are not assumed.
func withOnlyFree(rs []hrun, only []string) []hrun {
	out := withOnly(rs, only, false)
	for i := range out {
		out[i].FreeOthers = out[i].Seconds == 0 // the time-capped run keeps the old treatment until a full pass with the new one has been measured
	}
	return out
}

func withOnly(rs []hrun, only []string, panics bool) []hrun {
	out := make([]hrun, len(rs))
	for i, r := range rs {
		r.Only = only
		r.Panics = panics
		out[i] = r
	}
	return out
}

const nContexts = 36

func ctxRuns(thorough bool) []hrun {
	var r []hrun
	for df := 0; df <= 1; df++ {
		for c := 0; c < nContexts; c++ {
			if c == 21 || c == 22 { // contexts with two and three holes: reduced shape alphabet unless thorough
				if thorough {
					r = append(r, hrun{Harness: "ParseCtx", Params: P("CTX", c, "S", 1, "DF", df)})
				} else if df == 0 {
					r = append(r, hrun{Harness: "ParseCtx", Params: P("CTX", c, "S", 1, "DF", df, "SHAPES", 1)})
				}
				continue
			}
			r = append(r, hrun{Harness: "ParseCtx", Params: P("CTX", c, "S", 1, "DF", df)})
			if (df == 0 || thorough) && c != 2 && c != 21 && c != 22 { // contexts with several holes only get one slot per hole
				r = append(r, hrun{Harness: "ParseCtx", Params: P("CTX", c, "S", 2, "DF", df)})
			}
		}
	}
	return r
}

func deriveRuns(thorough bool) []hrun {
	var r []hrun
	for df := 0; df <= 1; df++ {
		maxK := 2
		if thorough || df == 0 {
			maxK = 3
		}
		for k := 1; k <= maxK; k++ {
			r = append(r, hrun{Harness: "DeriveTokens", Params: P("K", k, "DF", df)})
		}
		for te := 1; te <= 3; te++ { // an unterminated phrase / regexp after K complete tokens
			for k := 0; k <= 2; k++ {
				r = append(r, hrun{Harness: "DeriveTokens", Params: P("K", k, "DF", df, "TAILERR", te)})
			}
		}
		for c := 0; c < nContexts; c++ {
			if c == 21 || c == 22 {
				if thorough {
					r = append(r, hrun{Harness: "DeriveCtx", Params: P("CTX", c, "S", 1, "DF", df)})
				} else if df == 0 {
					r = append(r, hrun{Harness: "DeriveCtx", Params: P("CTX", c, "S", 1, "DF", df, "SHAPES", 1)})
				}
				continue
			}
			r = append(r, hrun{Harness: "DeriveCtx", Params: P("CTX", c, "S", 1, "DF", df)})
			if (df == 0 || thorough) && c != 2 && c != 21 && c != 22 {
				r = append(r, hrun{Harness: "DeriveCtx", Params: P("CTX", c, "S", 2, "DF", df)})
			}
		}
	}
	return r
}

var c02ids = []string{"inline-confined", "inline-columns-are-query-fields", "inline-strings-are-query-values", "param-confined",
	"param-columns-are-query-fields", "ident-confined", "ident-is-the-name", "ident-nonempty", "ident-param-confined", "ident-param-is-the-name", "ident-same-outcome", "value-confined", "value-param-confined", "quoted-sql-shape", "quoted-sql-constant-verbatim"}
var c03ids = []string{"fragment-renders", "sql-means-query", "sql-well-typed", "inline-numbers-are-query-values"}
var c04ids = []string{"inline-ok-implies-param-ok", "param-count", "param-no-inline-values", "param-values-in-order", "param-substitution-equals-inline",
	"param-means-inline", "same-outcome-for-same-kinds", "sql-text-independent-of-values", "param-count-independent-of-values", "value-param-confined", "value-param-equals-inline-constant", "inline-same-after-param"}

const nSQLForms = 54

func sqlRuns(thorough bool, concrete int) []hrun {
	var r []hrun
	for f := 0; f < nSQLForms; f++ {
		r = append(r, hrun{Harness: "SQLLeaf", Params: P("FORM", f, "CONCRETE", concrete)})
	}
	r = append(r, hrun{Harness: "SQLTree", Params: P("D", 1, "LEAVES", 1)})
	r = append(r, hrun{Harness: "SQLTree", Params: P("D", 2, "LEAVES", 0)})
	if thorough {
		r = append(r, hrun{Harness: "SQLTree", Params: P("D", 2, "LEAVES", 2)})
		r = append(r, hrun{Harness: "SQLTree", Params: P("D", 2, "LEAVES", 1), Seconds: 900})
	}
	return r
}

func identRuns(thorough bool) []hrun {
	r := []hrun{
		{Harness: "IdentConfined", Params: P("MODE", 0, "UNITS", 1)}, {Harness: "IdentConfined", Params: P("MODE", 0, "UNITS", 2)},
		{Harness: "IdentConfined", Params: P("MODE", 1, "UNITS", 0)}, {Harness: "IdentConfined", Params: P("MODE", 1, "UNITS", 1)}, {Harness: "IdentConfined", Params: P("MODE", 1, "UNITS", 2)},
	}
	r = append(r, hrun{Harness: "IdentConfined", Params: P("MODE", 0, "UNITS", 3)}, hrun{Harness: "IdentConfined", Params: P("MODE", 1, "UNITS", 3)})
	for tail := 1; tail <= 5; tail++ {
		r = append(r, hrun{Harness: "IdentConfined", Params: P("MODE", 0, "UNITS", 2, "TAIL", tail)})
		if thorough {
			r = append(r, hrun{Harness: "IdentConfined", Params: P("MODE", 0, "UNITS", 3, "TAIL", tail)}, hrun{Harness: "IdentConfined", Params: P("MODE", 1, "UNITS", 2, "TAIL", tail)})
		}
	}
	r = append(r, valueRuns(thorough)...)
	return r
}

// quotedValueRuns (C02): every string constant is a value of the query, for quoted values of
// arbitrary bytes (the assertions are C08's quoting clause, read for confinement).
func quotedValueRuns(thorough bool) []hrun {
	r := []hrun{{Harness: "QuoteVerbatim", Params: P("N", 1)}, {Harness: "QuoteVerbatim", Params: P("N", 2)}, {Harness: "QuoteVerbatim", Params: P("N", 3)}}
	if thorough {
		r = append(r, hrun{Harness: "QuoteVerbatim", Params: P("N", 4)})
	}
	return r
}

// identOutcomeRuns (C04): field names with arbitrary bytes render in both modes or in neither.
func identOutcomeRuns() []hrun {
	return []hrun{
		// the two renderers called in the other order, and lists only the exported API can build
		{Harness: "SQLLeaf", Params: P("FORM", 6, "CONCRETE", 1, "SEQ", 1)}, {Harness: "SQLLeaf", Params: P("FORM", 12, "CONCRETE", 1, "SEQ", 1)}, {Harness: "SQLLeaf", Params: P("FORM", 22, "CONCRETE", 1, "SEQ", 1)},
		{Harness: "ParamAPI"},
		{Harness: "IdentConfined", Params: P("MODE", 0, "UNITS", 2)}, {Harness: "IdentConfined", Params: P("MODE", 0, "UNITS", 2, "TAIL", 1)}, {Harness: "IdentConfined", Params: P("MODE", 0, "UNITS", 2, "TAIL", 4)},
		{Harness: "IdentConfined", Params: P("MODE", 1, "UNITS", 1)}, {Harness: "IdentConfined", Params: P("MODE", 1, "UNITS", 2)},
	}
}

func valueRuns(thorough bool) []hrun {
	r := []hrun{
		{Harness: "ValueConfined", Params: P("MODE", 0, "UNITS", 1)}, {Harness: "ValueConfined", Params: P("MODE", 0, "UNITS", 2)}, {Harness: "ValueConfined", Params: P("MODE", 0, "UNITS", 3)},
		{Harness: "ValueConfined", Params: P("MODE", 1, "UNITS", 0)}, {Harness: "ValueConfined", Params: P("MODE", 1, "UNITS", 1)}, {Harness: "ValueConfined", Params: P("MODE", 1, "UNITS", 2)},
		{Harness: "ValueConfined", Params: P("MODE", 2, "UNITS", 1)}, {Harness: "ValueConfined", Params: P("MODE", 2, "UNITS", 2)},
	}
	if thorough {
		r = append(r, hrun{Harness: "ValueConfined", Params: P("MODE", 0, "UNITS", 4)}, hrun{Harness: "ValueConfined", Params: P("MODE", 1, "UNITS", 3)})
	}
	return r
}

func indepRuns(thorough bool) []hrun {
	var r []hrun
	// parameter order in nestings of ranges, lists and strings (no row evaluation needed)
	r = append(r, hrun{Harness: "SQLTree", Params: P("D", 2, "LEAVES", 3, "ONEDIGIT", 1, "NOROWS", 1, "OPS", 1)})
	for f := 0; f < nSQLForms; f++ {
		r = append(r, hrun{Harness: "ParamIndependent", Params: P("D", 0, "FORM", f)})
	}
	r = append(r, hrun{Harness: "ParamIndependent", Params: P("D", 1, "FORM", 0)})
	if thorough {
		r = append(r, hrun{Harness: "ParamIndependent", Params: P("D", 2, "FORM", 0), Seconds: 600})
	}
	return r
}

func chainRuns() []hrun {
	r := []hrun{{Harness: "TreeTotality", Params: P("D", 1)}}
	for sh := 0; sh < 8; sh++ {
		r = append(r, hrun{Harness: "ParseChain", Params: P("N", 32, "SHAPE", sh)})
		if sh == 4 || sh == 5 { // nesting deeper than the usual fixed-size tables (32, 64)
			r = append(r, hrun{Harness: "ParseChain", Params: P("N", 70, "SHAPE", sh)})
		}
	}
	r = append(r, hrun{Harness: "ParseChain", Params: P("N", 40, "SHAPE", 8)}) // nested field groups
	for _, sh := range []int{0, 1, 2, 3, 9} {                                  // chains longer than the usual fixed limits (32, 64)
		r = append(r, hrun{Harness: "ParseChain", Params: P("N", 70, "SHAPE", sh)})
	}
	r = append(r, hrun{Harness: "TreeTotality", Params: P("D", 1, "FORMS", 1)})
	return r
}

// longChainRuns: fielded AND / OR chains of 32 and 70 clauses (C03: ToPostgres succeeds at any
// length) and every chain shape with and without a default field (C11: same acceptance).
func longChainRuns(all bool) []hrun {
	var r []hrun
	shapes := []int{0, 9}
	if all {
		shapes = []int{0, 1, 2, 3, 4, 5, 6, 7, 9}
	}
	for _, sh := range shapes {
		r = append(r, hrun{Harness: "ParseChain", Params: P("N", 32, "SHAPE", sh)})
		if sh != 6 && sh != 7 {
			r = append(r, hrun{Harness: "ParseChain", Params: P("N", 70, "SHAPE", sh)})
		}
	}
	return r
}

func oddDefaultFieldRuns() []hrun {
	var r []hrun
	for df := 2; df <= 8; df++ {
		r = append(r, hrun{Harness: "ParseBytes", Params: P("N", 1, "DF", df), Panics: true}, hrun{Harness: "ParseBytes", Params: P("N", 2, "DF", df), Panics: true})
	}
	return r
}

func parseRuns(thorough bool) []hrun {
	var r []hrun
	maxN := 3
	if thorough {
		maxN = 4
	}
	for df := 0; df <= 1; df++ {
		for n := 0; n <= maxN; n++ {
			r = append(r, hrun{Harness: "ParseBytes", Params: P("N", n, "DF", df), Panics: true})
		}
		r = append(r, hrun{Harness: "ParseTokens", Params: P("K", 1, "DF", df, "WIDE", 1), Panics: true})
		maxK := 2
		if thorough {
			maxK = 3
		}
		for k := 1; k <= maxK; k++ {
			r = append(r, hrun{Harness: "ParseTokens", Params: P("K", k, "DF", df, "WIDE", 0), Panics: true})
		}
		if df == 1 {
			r = append(r, oddDefaultFieldRuns()...)
		}
		if !thorough { // three tokens over one representative per token kind
			r = append(r, hrun{Harness: "ParseTokens", Params: P("K", 3, "DF", df, "WIDE", 0, "SHAPES", 1), Panics: true})
		}
	}
	return r
}

var props = map[string]propCfg{
	"C01": {
		Quick:    withOnly(append(append(parseRuns(false), ctxRuns(false)...), chainRuns()...), c01ids, true),
		Thorough: withOnly(append(append(parseRuns(true), ctxRuns(true)...), chainRuns()...), c01ids, true),
		Bounds:   "all byte strings of length <= 3 (quick) / <= 4 (thorough); one token with every literal content of <= 3 bytes; token sequences of <= 2 (quick) / <= 3 (thorough) tokens over 21 token shapes (one of them a byte no token can start with) with symbolic literal bytes; three tokens over one representative per token kind; with and without a default field; consumers String, %#v, Render, RenderParam, and ToPostgres / ToParameterizedPostgres on the text itself (accepted and rejected inputs)",
		Outside:  "longer inputs; asymptotic running time; symbolic decimal floats (cut); JSON encoding (see C12)",
	},
	"C02": {
		Quick:    withOnly(append(append(sqlRuns(false, 0), identRuns(false)...), quotedValueRuns(false)...), c02ids, false),
		Thorough: withOnly(append(append(sqlRuns(true, 0), identRuns(true)...), quotedValueRuns(true)...), c02ids, false),
		Bounds:   "every leaf form of the renderable language (49 forms: equality, comparisons, inclusive/exclusive/open ranges over ints, strings and floats, lists, wildcards incl. escaped characters, escaped wildcards, underscore/dot/dash and runs of wildcards, regexps incl. one ending in an escaped backslash, quoted strings incl. three-byte runes and U+FFFD, NaN/Inf as values and as range bounds, decimals with 9 significant digits, integers beyond 2^53) with symbolic field names and values; boolean trees of depth <= 2 over them; field names carrying arbitrary bytes through escapes (<= 2/3 units) or quoted phrases (<= 2/3 bytes, all 256 values); inline and parameterized",
		Outside:  "identifiers longer than 63 bytes; values longer than the hole widths; PostgreSQL settings other than standard_conforming_strings=on; the SQL fragment is parsed by a model of PostgreSQL's grammar (validated against pg_query natively)",
	},
	"C03": {
		Quick:    withOnlyFree(append(sqlRuns(false, 1), longChainRuns(false)...), c03ids),
		Thorough: withOnlyFree(append(sqlRuns(true, 1), longChainRuns(false)...), c03ids),
		Bounds:   "every leaf form of the filterable fragment with symbolic constants (1-2 digit integers, 2-byte strings, 2-3 byte patterns) and a symbolic row value of the matching type (integers -3..103, strings of 0-3 printable bytes); boolean trees (AND OR NOT + -) of depth <= 2 over integer and string leaves with one symbolic row value per field",
		Outside:  "NULLs; collations other than bytewise; floats other than the listed constants; regexp meaning; SIMILAR TO patterns containing regex metacharacters; ranges whose bounds have different types; field groups that contain a pattern; deeper trees",
	},
	"C04": {
		Quick:    withOnly(append(append(append(sqlRuns(false, 1), indepRuns(false)...), valueRuns(false)...), identOutcomeRuns()...), c04ids, false),
		Thorough: withOnly(append(append(append(sqlRuns(true, 1), indepRuns(true)...), valueRuns(true)...), identOutcomeRuns()...), c04ids, false),
		Bounds:   "as C03, plus two independent instances of the same query shape (2-safety) for every leaf form and for trees of depth 1 (quick) / 2 (thorough)",
		Outside:  "value kinds other than int, string, the listed floats; deeper trees",
	},
	"C05": {
		Quick: []hrun{
			{Harness: "TreeRoundTrip", Params: P("D", 1, "LEAVES", 1, "VARIANT", 0)},
			{Harness: "TreeRoundTrip", Params: P("D", 1, "LEAVES", 12, "VARIANT", 0)}, {Harness: "TreeRoundTrip", Params: P("D", 1, "LEAVES", 12, "VARIANT", 1)},
			{Harness: "TreeRoundTrip", Params: P("D", 1, "LEAVES", 1, "VARIANT", 1)},
			{Harness: "TreeRoundTrip", Params: P("D", 1, "LEAVES", 1, "VARIANT", 2)},
			{Harness: "TreeRoundTrip", Params: P("D", 2, "LEAVES", 0, "VARIANT", 0)},
			{Harness: "TreeRoundTrip", Params: P("D", 2, "LEAVES", 0, "VARIANT", 1)},
			{Harness: "TreeRoundTrip", Params: P("D", 3, "LEAVES", 3, "OPS", 1, "VARIANT", 0)},
			{Harness: "TreeRoundTrip", Params: P("D", 3, "LEAVES", 3, "OPS", 4, "VARIANT", 0)},
		},
		Thorough: []hrun{
			{Harness: "TreeRoundTrip", Params: P("D", 3, "LEAVES", 3, "OPS", 4, "VARIANT", 0)}, {Harness: "TreeRoundTrip", Params: P("D", 2, "LEAVES", 0, "OPS", 3, "VARIANT", 0)},
			{Harness: "TreeRoundTrip", Params: P("D", 3, "LEAVES", 3, "OPS", 1, "VARIANT", 0)}, {Harness: "TreeRoundTrip", Params: P("D", 3, "LEAVES", 3, "OPS", 2, "VARIANT", 0)},
			{Harness: "TreeRoundTrip", Params: P("D", 1, "LEAVES", 1, "VARIANT", 0)},
			{Harness: "TreeRoundTrip", Params: P("D", 1, "LEAVES", 12, "VARIANT", 0)}, {Harness: "TreeRoundTrip", Params: P("D", 1, "LEAVES", 12, "VARIANT", 1)},
			{Harness: "TreeRoundTrip", Params: P("D", 1, "LEAVES", 1, "VARIANT", 1)},
			{Harness: "TreeRoundTrip", Params: P("D", 1, "LEAVES", 1, "VARIANT", 2)},
			{Harness: "TreeRoundTrip", Params: P("D", 2, "LEAVES", 0, "VARIANT", 0)},
			{Harness: "TreeRoundTrip", Params: P("D", 2, "LEAVES", 0, "VARIANT", 1)},
			{Harness: "TreeRoundTrip", Params: P("D", 2, "LEAVES", 0, "VARIANT", 2)},
			{Harness: "TreeRoundTrip", Params: P("D", 2, "LEAVES", 2, "VARIANT", 0)},
		},
		Bounds:  "all expression trees of depth <= 1 over 18 leaf forms and of depth <= 2 over 3 leaf forms (quick; thorough adds depth 2 over 8 leaf forms), 7 operators incl. default and explicit powers/distances, leaves with symbolic bytes (field names, 2-byte strings, 1-2 digit integers); minimal and fully redundant parenthesisation, wide spacing",
		Outside: "deeper trees; literal contents outside the hole classes (covered by C06/C08/C01 tiers)",
	},
	"C06": {
		Quick:    deriveRuns(false),
		Thorough: deriveRuns(true),
		Bounds:   "all token sequences of <= 2 tokens (quick, both default-field settings; 3 tokens without default field) / <= 3 tokens (thorough) over 20 token shapes with symbolic literal bytes, and 1-2 free token slots inside 32 bracket/operator contexts; the same sequences followed by an unterminated phrase or regexp; the derivation oracle knows every token and its typed value from the generator, not from the lexer under test",
		Outside:  "longer sequences; literal contents outside the narrow shape classes (typed values of arbitrary words are covered by C08 and the K=1 wide slot of C01)",
	},
	"C07": {
		Quick:    []hrun{{Harness: "TreeJuxtapose", Params: P("D", 2, "LEAVES", 0), InfoOnly: []string{"juxt-accepted"}}, {Harness: "TreeJuxtapose", Params: P("D", 1, "LEAVES", 1), InfoOnly: []string{"juxt-accepted"}}, {Harness: "TreeJuxtapose", Params: P("D", 3, "LEAVES", 3, "OPS", 1), InfoOnly: []string{"juxt-accepted"}}, {Harness: "TreeJuxtapose", Params: P("D", 2, "LEAVES", 0, "OPS", 3), InfoOnly: []string{"juxt-accepted"}}, {Harness: "TreeJuxtapose", Params: P("D", 2, "LEAVES", 9, "OPS", 2), InfoOnly: []string{"juxt-accepted"}}, {Harness: "TreeJuxtapose", Params: P("D", 2, "LEAVES", 10, "OPS", 2), InfoOnly: []string{"juxt-accepted"}}, {Harness: "TreeJuxtapose", Params: P("D", 2, "LEAVES", 11, "OPS", 1, "ONEDIGIT", 1), InfoOnly: []string{"juxt-accepted"}}, {Harness: "TreeJuxtapose", Params: P("D", 2, "GROUP", 1, "DF", 1), InfoOnly: []string{"juxt-accepted"}}, {Harness: "TreeJuxtapose", Params: P("D", 3, "GROUP", 1, "DF", 1), InfoOnly: []string{"juxt-accepted"}}, {Harness: "TreeJuxtapose", Params: P("D", 3, "GROUP", 1, "DF", 0), InfoOnly: []string{"juxt-accepted"}}},
		Thorough: []hrun{{Harness: "TreeJuxtapose", Params: P("D", 2, "LEAVES", 0), InfoOnly: []string{"juxt-accepted"}}, {Harness: "TreeJuxtapose", Params: P("D", 1, "LEAVES", 1), InfoOnly: []string{"juxt-accepted"}}, {Harness: "TreeJuxtapose", Params: P("D", 3, "LEAVES", 3, "OPS", 1), InfoOnly: []string{"juxt-accepted"}}, {Harness: "TreeJuxtapose", Params: P("D", 3, "LEAVES", 3, "OPS", 2), InfoOnly: []string{"juxt-accepted"}}, {Harness: "TreeJuxtapose", Params: P("D", 2, "LEAVES", 2), InfoOnly: []string{"juxt-accepted"}}, {Harness: "TreeJuxtapose", Params: P("D", 2, "LEAVES", 9, "OPS", 2), InfoOnly: []string{"juxt-accepted"}}, {Harness: "TreeJuxtapose", Params: P("D", 2, "LEAVES", 10, "OPS", 2), InfoOnly: []string{"juxt-accepted"}}, {Harness: "TreeJuxtapose", Params: P("D", 2, "LEAVES", 11, "OPS", 1, "ONEDIGIT", 1), InfoOnly: []string{"juxt-accepted"}}, {Harness: "TreeJuxtapose", Params: P("D", 2, "GROUP", 1, "DF", 1), InfoOnly: []string{"juxt-accepted"}}, {Harness: "TreeJuxtapose", Params: P("D", 3, "GROUP", 1, "DF", 1), InfoOnly: []string{"juxt-accepted"}}, {Harness: "TreeJuxtapose", Params: P("D", 3, "GROUP", 1, "DF", 0), InfoOnly: []string{"juxt-accepted"}}},
		Bounds:   "all trees as in C05 that contain an AND node, each AND node in turn written as juxtaposition; both texts parsed by the real parser; extra alphabets: comparisons, bare numbers, exclusive ranges, field groups",
		Outside:  "several gaps at once; deeper trees; a juxtaposition the parser rejects is informational (eligibility is defined by the parser accepting the text)",
	},
	"C09": {
		Quick: []hrun{
			{Harness: "TreeLayout", Params: P("D", 1, "LEAVES", 1, "VARIANT", 0)}, {Harness: "TreeLayout", Params: P("D", 1, "LEAVES", 1, "VARIANT", 1)}, {Harness: "TreeLayout", Params: P("D", 1, "LEAVES", 1, "VARIANT", 2)},
			{Harness: "TreeLayout", Params: P("D", 2, "LEAVES", 0, "VARIANT", 0)}, {Harness: "TreeLayout", Params: P("D", 2, "LEAVES", 0, "VARIANT", 1)},
			{Harness: "TreeLayout", Params: P("D", 1, "LEAVES", 1, "VARIANT", 3)}, {Harness: "TreeLayout", Params: P("D", 1, "LEAVES", 1, "VARIANT", 4)},
			{Harness: "TreeLayout", Params: P("D", 1, "LEAVES", 1, "VARIANT", 2, "DF", 1)},
			{Harness: "TreeLayout", Params: P("D", 1, "LEAVES", 2, "VARIANT", 5)}, {Harness: "TreeLayout", Params: P("D", 1, "LEAVES", 1, "VARIANT", 6)},
			{Harness: "TreeLayout", Params: P("D", 1, "LEAVES", 0, "OPS", 3, "VARIANT", 2, "DF", 1)},
			{Harness: "LayoutTokens", Params: P("K", 2, "DF", 0)}, {Harness: "LayoutTokens", Params: P("K", 3, "DF", 0, "SHAPES", 1)},
		},
		Thorough: []hrun{
			{Harness: "TreeLayout", Params: P("D", 1, "LEAVES", 1, "VARIANT", 3)}, {Harness: "TreeLayout", Params: P("D", 2, "LEAVES", 0, "VARIANT", 3)},
			{Harness: "TreeLayout", Params: P("D", 3, "LEAVES", 3, "OPS", 1, "VARIANT", 2)}, {Harness: "TreeLayout", Params: P("D", 1, "LEAVES", 1, "VARIANT", 4)}, {Harness: "TreeLayout", Params: P("D", 1, "LEAVES", 1, "VARIANT", 2, "DF", 1)},
			{Harness: "LayoutTokens", Params: P("K", 2, "DF", 0)}, {Harness: "LayoutTokens", Params: P("K", 2, "DF", 1)}, {Harness: "LayoutTokens", Params: P("K", 3, "DF", 0)}, {Harness: "LayoutTokens", Params: P("K", 4, "DF", 0, "SHAPES", 1)},
			{Harness: "TreeLayout", Params: P("D", 1, "LEAVES", 1, "VARIANT", 0)}, {Harness: "TreeLayout", Params: P("D", 1, "LEAVES", 1, "VARIANT", 1)}, {Harness: "TreeLayout", Params: P("D", 1, "LEAVES", 1, "VARIANT", 2)},
			{Harness: "TreeLayout", Params: P("D", 2, "LEAVES", 0, "VARIANT", 0)}, {Harness: "TreeLayout", Params: P("D", 2, "LEAVES", 0, "VARIANT", 1)}, {Harness: "TreeLayout", Params: P("D", 2, "LEAVES", 0, "VARIANT", 2)},
			{Harness: "TreeLayout", Params: P("D", 2, "LEAVES", 0, "OPS", 3, "VARIANT", 2, "DF", 1)},
			{Harness: "TreeLayout", Params: P("D", 1, "LEAVES", 1, "VARIANT", 5)}, {Harness: "TreeLayout", Params: P("D", 2, "LEAVES", 0, "VARIANT", 5)}, {Harness: "TreeLayout", Params: P("D", 1, "LEAVES", 1, "VARIANT", 6)}, {Harness: "TreeLayout", Params: P("D", 2, "LEAVES", 0, "VARIANT", 6)},
		},
		Bounds:  "trees as in C05; variants: every gap widened to space+tab plus leading/trailing white space, every gap written as a lone tab, LF, CR or CR LF (also leading and trailing), lower/mixed-case keywords, one redundant pair of parentheses around any one node, around every field value, around the number after ~ and ^",
		Outside: "white space characters other than space, tab, CR, LF; whitespace inside quoted phrases",
	},
	"C11": {
		Quick: append([]hrun{
			{Harness: "TreeDefaultField", Params: P("D", 1, "LEAVES", 1, "DFKIND", 0)}, {Harness: "TreeDefaultField", Params: P("D", 1, "LEAVES", 1, "DFKIND", 1)},
			{Harness: "TreeDefaultField", Params: P("D", 2, "LEAVES", 0, "DFKIND", 0)},
			{Harness: "TreeDefaultField", Params: P("D", 1, "LEAVES", 1, "DFKIND", 0, "VARIANT", 1)},
			{Harness: "TreeDefaultField", Params: P("D", 3, "LEAVES", 6, "OPS", 1, "DFKIND", 0)},
			{Harness: "TreeDefaultField", Params: P("D", 1, "LEAVES", 7, "DFKIND", 0, "VARIANT", 2)},
			{Harness: "TreeDefaultField", Params: P("D", 1, "LEAVES", 1, "DFKIND", 2)}, {Harness: "TreeDefaultField", Params: P("D", 1, "LEAVES", 1, "DFKIND", 3)}, {Harness: "TreeDefaultField", Params: P("D", 1, "LEAVES", 0, "DFKIND", 4)},
			{Harness: "GroupDefaultField", Params: P("GD", 1)}, {Harness: "GroupDefaultField", Params: P("GD", 2, "GFORMS", 1)}, {Harness: "GroupDefaultField", Params: P("GD", 3, "GFORMS", 1)},
		}, longChainRuns(true)...),
		Thorough: append([]hrun{
			{Harness: "GroupDefaultField", Params: P("GD", 1)}, {Harness: "GroupDefaultField", Params: P("GD", 2)}, {Harness: "GroupDefaultField", Params: P("GD", 3, "GFORMS", 1)},
			{Harness: "TreeDefaultField", Params: P("D", 1, "LEAVES", 7, "DFKIND", 0, "VARIANT", 2)}, {Harness: "TreeDefaultField", Params: P("D", 2, "LEAVES", 0, "DFKIND", 0, "VARIANT", 2)},
			{Harness: "TreeDefaultField", Params: P("D", 1, "LEAVES", 1, "DFKIND", 2)}, {Harness: "TreeDefaultField", Params: P("D", 1, "LEAVES", 1, "DFKIND", 3)}, {Harness: "TreeDefaultField", Params: P("D", 1, "LEAVES", 0, "DFKIND", 4)},
			{Harness: "TreeDefaultField", Params: P("D", 3, "LEAVES", 6, "OPS", 1, "DFKIND", 0)}, {Harness: "TreeDefaultField", Params: P("D", 3, "LEAVES", 6, "OPS", 2, "DFKIND", 0)},
			{Harness: "TreeDefaultField", Params: P("D", 1, "LEAVES", 1, "DFKIND", 0, "VARIANT", 1)}, {Harness: "TreeDefaultField", Params: P("D", 2, "LEAVES", 0, "DFKIND", 0, "VARIANT", 1)},
			{Harness: "TreeDefaultField", Params: P("D", 1, "LEAVES", 1, "DFKIND", 0)}, {Harness: "TreeDefaultField", Params: P("D", 1, "LEAVES", 1, "DFKIND", 1)},
			{Harness: "TreeDefaultField", Params: P("D", 2, "LEAVES", 0, "DFKIND", 0)}, {Harness: "TreeDefaultField", Params: P("D", 2, "LEAVES", 2, "DFKIND", 0)},
		}, longChainRuns(true)...),
		Bounds:  "trees as in C05; default field names of 2-3 symbolic bytes (identifier-like, one needing quoting, leading/trailing white space) disjoint from the query's fields; field groups x:(E) with E of depth <= 3 over OR/AND/NOT and bare strings (depth <= 2 also numbers and patterns), alone and beside other operands",
		Outside: "deeper trees",
	},
	"C08": {
		Quick: []hrun{
			{Harness: "QuoteVerbatim", Params: P("N", 0)}, {Harness: "QuoteVerbatim", Params: P("N", 1)}, {Harness: "QuoteVerbatim", Params: P("N", 2)}, {Harness: "QuoteVerbatim", Params: P("N", 3)},
			{Harness: "EscapeVerbatim", Params: P("N", 1)}, {Harness: "EscapeVerbatim", Params: P("N", 2)}, {Harness: "EscapeVerbatim", Params: P("N", 3)},
			{Harness: "QuoteVerbatim", Params: P("N", 1, "CTXV", 1)}, {Harness: "QuoteVerbatim", Params: P("N", 2, "CTXV", 1)}, {Harness: "QuoteVerbatim", Params: P("N", 3, "CTXV", 1)},
			{Harness: "EscapeVerbatim", Params: P("N", 1, "CTXV", 1)}, {Harness: "EscapeVerbatim", Params: P("N", 2, "CTXV", 1)}, {Harness: "EscapeVerbatim", Params: P("N", 0, "MB", 1)}, {Harness: "EscapeVerbatim", Params: P("N", 1, "MB", 1)}, {Harness: "EscapeVerbatim", Params: P("N", 2, "MB", 1)},
			{Harness: "QuoteVerbatim", Params: P("N", 1, "CTXV", 2)}, {Harness: "QuoteVerbatim", Params: P("N", 2, "CTXV", 2)}, {Harness: "QuoteVerbatim", Params: P("N", 3, "CTXV", 2)},
			{Harness: "EscapeVerbatim", Params: P("N", 1, "HEX", 1)}, {Harness: "EscapeVerbatim", Params: P("N", 2, "HEX", 1)},
		},
		Thorough: []hrun{
			{Harness: "QuoteVerbatim", Params: P("N", 0)}, {Harness: "QuoteVerbatim", Params: P("N", 1)}, {Harness: "QuoteVerbatim", Params: P("N", 2)}, {Harness: "QuoteVerbatim", Params: P("N", 3)}, {Harness: "QuoteVerbatim", Params: P("N", 4)},
			{Harness: "EscapeVerbatim", Params: P("N", 1)}, {Harness: "EscapeVerbatim", Params: P("N", 2)}, {Harness: "EscapeVerbatim", Params: P("N", 3)}, {Harness: "EscapeVerbatim", Params: P("N", 4)},
			{Harness: "QuoteVerbatim", Params: P("N", 1, "CTXV", 1)}, {Harness: "QuoteVerbatim", Params: P("N", 2, "CTXV", 1)}, {Harness: "QuoteVerbatim", Params: P("N", 3, "CTXV", 1)}, {Harness: "QuoteVerbatim", Params: P("N", 4, "CTXV", 1)},
			{Harness: "EscapeVerbatim", Params: P("N", 1, "CTXV", 1)}, {Harness: "EscapeVerbatim", Params: P("N", 2, "CTXV", 1)}, {Harness: "EscapeVerbatim", Params: P("N", 3, "CTXV", 1)}, {Harness: "EscapeVerbatim", Params: P("N", 0, "MB", 1)}, {Harness: "EscapeVerbatim", Params: P("N", 1, "MB", 1)}, {Harness: "EscapeVerbatim", Params: P("N", 2, "MB", 1)}, {Harness: "EscapeVerbatim", Params: P("N", 3, "MB", 1)},
			{Harness: "QuoteVerbatim", Params: P("N", 1, "CTXV", 2)}, {Harness: "QuoteVerbatim", Params: P("N", 2, "CTXV", 2)}, {Harness: "QuoteVerbatim", Params: P("N", 3, "CTXV", 2)}, {Harness: "QuoteVerbatim", Params: P("N", 4, "CTXV", 2)},
			{Harness: "EscapeVerbatim", Params: P("N", 1, "HEX", 1)}, {Harness: "EscapeVerbatim", Params: P("N", 2, "HEX", 1)}, {Harness: "EscapeVerbatim", Params: P("N", 3, "HEX", 1)},
		},
		Bounds:  "quoting: all byte strings w of length <= 3 (quick) / <= 4 (thorough) that are valid UTF-8 without '\"' and NUL, every byte value; escaping: all ASCII texts w of length <= 3/4 whose first byte is not a digit, sign, dot or i/n (numbers, inf, nan) and that do not spell AND/OR/NOT/TO; both clauses also for a free-standing term under AND with a default field (a:b AND <term>)",
		Outside: "longer texts; non-ASCII texts in the escaping clause other than one multi-byte character (a letter, a dash, a currency sign, a section sign, an emoji) in second position; single-quoted phrases",
	},
	"C10": {
		Quick:    withOnly(append(parseRuns(false), ctxRuns(false)...), c10ids, false),
		Thorough: withOnly(append(parseRuns(true), ctxRuns(true)...), c10ids, false),
		Bounds:   "as C01: all byte strings <= 3/4, token sequences <= 2/3, and 1-2 free token slots inside 32 bracket/operator contexts (range bounds, groups, field values, nested field positions, groups after a comparison, prefix/suffix operators), with and without default field; ToPostgres / ToParameterizedPostgres called on the text of accepted and rejected inputs",
		Outside:  "longer inputs; garbage needing more than 2 free tokens in one place",
	},
	"C12": {
		Quick:    []hrun{{Harness: "JSONRoundTrip", Params: P("D", 1, "LEAVES", 4)}, {Harness: "JSONRoundTrip", Params: P("D", 1, "LEAVES", 0, "REUSE", 1)}},
		Thorough: []hrun{{Harness: "JSONRoundTrip", Params: P("D", 1, "LEAVES", 4)}, {Harness: "JSONRoundTrip", Params: P("D", 2, "LEAVES", 0)}, {Harness: "JSONRoundTrip", Params: P("D", 1, "LEAVES", 0, "REUSE", 1)}, {Harness: "JSONRoundTrip", Params: P("D", 2, "LEAVES", 0, "REUSE", 1)}},
		Bounds:   "every tree of depth <= 1 over 30 leaf forms (all operators incl. default and explicit boost powers / fuzzy distances, inclusive/exclusive/open ranges, lists of strings and ints, empty quoted string, two- and three-byte UTF-8 text, quotes/commas in values, quoted patterns and quoted /regexps/ and whole floats (deep equality waived for exactly those), integers beyond int64, a regexp ending in an escaped backslash) with symbolic leaf bytes (quick); depth <= 2 over 3 leaf forms (thorough); through Parse, Marshal, Unmarshal, Validate, re-Marshal, String, Render, RenderParam",
		Outside:  "encoding/json itself is replaced by a pure-Go stand-in for the types involved (compared with the real package on every natively replayed path); strings whose JSON encoding needs escapes other than those in the hole classes; deeper trees",
	},
	"C13": {
		Quick: withOnly([]hrun{
			{Harness: "JSONBytes", Params: P("N", 0)}, {Harness: "JSONBytes", Params: P("N", 1)}, {Harness: "JSONBytes", Params: P("N", 2)}, {Harness: "JSONBytes", Params: P("N", 3)}, {Harness: "JSONBytes", Params: P("N", 4)}, {Harness: "JSONBytes", Params: P("N", 5)},
			{Harness: "JSONDoc", Params: P("D", 0, "LITE", 1)},
			{Harness: "JSONDoc", Params: P("D", 0, "LITE", 1, "RB", 1, "BSHAPE", 1)}, {Harness: "JSONDoc", Params: P("D", 0, "BS", 1)}, {Harness: "JSONDoc", Params: P("D", 0, "NEST", 1)}, {Harness: "JSONDoc", Params: P("D", 0, "LITE", 1, "PW", 1)},
		}, nil, true),
		Thorough: withOnly([]hrun{
			{Harness: "JSONBytes", Params: P("N", 0)}, {Harness: "JSONBytes", Params: P("N", 1)}, {Harness: "JSONBytes", Params: P("N", 2)}, {Harness: "JSONBytes", Params: P("N", 3)}, {Harness: "JSONBytes", Params: P("N", 4)}, {Harness: "JSONBytes", Params: P("N", 5)}, {Harness: "JSONBytes", Params: P("N", 6)},
			{Harness: "JSONDoc", Params: P("D", 0)}, {Harness: "JSONDoc", Params: P("D", 0, "RB", 1, "BSHAPE", 1)}, {Harness: "JSONDoc", Params: P("D", 0, "BS", 1)}, {Harness: "JSONDoc", Params: P("D", 0, "NEST", 1)}, {Harness: "JSONDoc", Params: P("D", 0, "LITE", 1, "PW", 1)}, {Harness: "JSONDoc", Params: P("D", 1, "LITE", 1), Seconds: 1200},
		}, nil, true),
		Bounds:  "all byte strings of length <= 5 (quick) / 6 (thorough) decoded into an Expression; all compact documents {left?, operator?, right?, distance/power/boundaries/extra?} whose members are strings of 0-2 symbolic bytes, numbers, null, true, arrays, range-boundary objects (complete, without inclusive, or with min or max occurring only below another member), wrongly typed values, operator names from the table or arbitrary 2-byte strings or a number (nested objects to depth 1 in thorough); decoded expressions that validate go through String, %#v, Marshal, Render, RenderParam",
		Outside: "encoding/json replaced by the stand-in (see C12); object keys with non-ASCII bytes (cut); documents deeper than the bound; white space between tokens beyond what the byte tier generates",
	},
	"C14": {
		Quick: []hrun{
			{Harness: "Purity", Params: P("SRC", 0, "D", 1, "LEAVES", 8, "DF", 0)}, {Harness: "Purity", Params: P("SRC", 0, "D", 1, "LEAVES", 8, "DF", 1)},
			{Harness: "Purity", Params: P("SRC", 1, "K", 2, "DF", 0)},
			{Harness: "PurityDoc", Params: P("D", 0, "LITE", 1, "PW", 1)},
		},
		Thorough: []hrun{
			{Harness: "Purity", Params: P("SRC", 0, "D", 1, "LEAVES", 8, "DF", 0)}, {Harness: "Purity", Params: P("SRC", 0, "D", 1, "LEAVES", 8, "DF", 1)},
			{Harness: "Purity", Params: P("SRC", 0, "D", 2, "LEAVES", 0, "DF", 0)}, {Harness: "Purity", Params: P("SRC", 0, "D", 2, "LEAVES", 0, "DF", 1)},
			{Harness: "Purity", Params: P("SRC", 1, "K", 2, "DF", 0)}, {Harness: "Purity", Params: P("SRC", 1, "K", 3, "DF", 0)},
			{Harness: "PurityDoc", Params: P("D", 0, "LITE", 1, "PW", 1)}, {Harness: "PurityDoc", Params: P("D", 0, "PW", 1)},
		},
		Bounds:  "every path of: trees of depth <= 1 over 19 leaf forms and depth <= 2 over 3 leaf forms, token sequences of <= 2 (quick) / 3 (thorough) tokens; per path: Parse twice (and a call without options before and after calls with a default field), String, %#v, Validate twice, Render twice, RenderParam three times, json.Marshal twice, ToPostgres twice, error texts compared, a private driver customised; the same clauses on decoded documents (unknown operators, zero / negative powers and distances, members of the wrong kind); monitors: package-level variables of the module unchanged at path end, shared expression unchanged after each consumer, no map iteration / goroutine / channel / pointer formatting executed after the epoch",
		Outside: "schedules are not explored: absence of writes to shared state and of nondeterminism sources on every explored path is the argument for race freedom and schedule independence (Go memory model); inputs beyond the bounds",
	},
	"C15": {
		Quick: []hrun{
			{Harness: "DriverFold", Params: P("D", 1, "LEAVES", 1, "MODE", 0, "RETLEN", 1)},
			{Harness: "DriverFold", Params: P("D", 1, "LEAVES", 1, "MODE", 0, "RETLEN", 0)},
			{Harness: "DriverFold", Params: P("D", 1, "LEAVES", 1, "MODE", 1, "RETLEN", 1)},
			{Harness: "DriverFold", Params: P("D", 1, "LEAVES", 2, "MODE", 2, "RETLEN", 1)},
			{Harness: "DriverFold", Params: P("D", 1, "LEAVES", 2, "MODE", 0, "RETLEN", 1, "ONEITEM", 1)}, {Harness: "DriverFold", Params: P("D", 1, "LEAVES", 2, "MODE", 2, "RETLEN", 1, "ONEITEM", 1)},
			{Harness: "DriverFold", Params: P("D", 1, "LEAVES", 2, "MODE", 0, "RETLEN", 1, "UNDEF", 1)}, {Harness: "DriverFold", Params: P("D", 2, "LEAVES", 3, "OPS", 1, "MODE", 0, "RETLEN", 1)}, {Harness: "DriverFold", Params: P("D", 2, "LEAVES", 3, "OPS", 1, "MODE", 2, "RETLEN", 1)},
			{Harness: "UnsupportedOps", Params: P("D", 2, "LEAVES", 0)}, {Harness: "UnsupportedOps", Params: P("D", 1, "LEAVES", 0, "PRIV", 1)},
		},
		Thorough: []hrun{
			{Harness: "DriverFold", Params: P("D", 1, "LEAVES", 1, "MODE", 0, "RETLEN", 1)},
			{Harness: "DriverFold", Params: P("D", 1, "LEAVES", 1, "MODE", 0, "RETLEN", 0)},
			{Harness: "DriverFold", Params: P("D", 1, "LEAVES", 1, "MODE", 0, "RETLEN", 2)},
			{Harness: "DriverFold", Params: P("D", 1, "LEAVES", 1, "MODE", 1, "RETLEN", 1)},
			{Harness: "DriverFold", Params: P("D", 1, "LEAVES", 1, "MODE", 2, "RETLEN", 1)},
			{Harness: "DriverFold", Params: P("D", 2, "LEAVES", 0, "MODE", 0, "RETLEN", 1)},
			{Harness: "DriverFold", Params: P("D", 2, "LEAVES", 0, "MODE", 1, "RETLEN", 1)},
			{Harness: "DriverFold", Params: P("D", 1, "LEAVES", 2, "MODE", 0, "RETLEN", 1, "ONEITEM", 1)}, {Harness: "DriverFold", Params: P("D", 1, "LEAVES", 2, "MODE", 2, "RETLEN", 1, "ONEITEM", 1)},
			{Harness: "DriverFold", Params: P("D", 1, "LEAVES", 2, "MODE", 0, "RETLEN", 1, "UNDEF", 1)}, {Harness: "DriverFold", Params: P("D", 2, "LEAVES", 3, "OPS", 1, "MODE", 0, "RETLEN", 1)}, {Harness: "DriverFold", Params: P("D", 2, "LEAVES", 3, "OPS", 1, "MODE", 2, "RETLEN", 1)},
			{Harness: "UnsupportedOps", Params: P("D", 2, "LEAVES", 0)},
			{Harness: "UnsupportedOps", Params: P("D", 1, "LEAVES", 1)}, {Harness: "UnsupportedOps", Params: P("D", 1, "LEAVES", 1, "PRIV", 1)},
		},
		Bounds:  "expression trees as the real parser produces them for every tree of depth <= 1 over 19 leaf forms (quick) and depth <= 2 over 3 leaf forms (thorough), all 19 operators registered with tracing functions that return fresh symbolic strings of length 0-2; one call returning an error at every position; every single operator removed from the map; value lists cut to one item; functions registered on a driver of one's own",
		Outside: "maps with more than one entry removed; render functions with side effects on the tree; trees not reachable from Parse other than value lists cut to one item",
	},
	"C16": {
		Quick:    withOnly([]hrun{{Harness: "LexSegment", Params: P("N", 0)}, {Harness: "LexSegment", Params: P("N", 1)}, {Harness: "LexSegment", Params: P("N", 2)}, {Harness: "LexSegment", Params: P("N", 3)}, {Harness: "LexTokens", Params: P("K", 1)}, {Harness: "LexTokens", Params: P("K", 2)}}, nil, true),
		Thorough: withOnly([]hrun{{Harness: "LexSegment", Params: P("N", 0)}, {Harness: "LexSegment", Params: P("N", 1)}, {Harness: "LexSegment", Params: P("N", 2)}, {Harness: "LexSegment", Params: P("N", 3)}, {Harness: "LexSegment", Params: P("N", 4)}, {Harness: "LexTokens", Params: P("K", 1)}, {Harness: "LexTokens", Params: P("K", 2)}, {Harness: "LexTokens", Params: P("K", 3), Seconds: 900}, {Harness: "LexSegment", Params: P("N", 5), Seconds: 1200}}, nil, true),
		Bounds:   "all byte strings (all 256 values per byte) of length <= 3 (quick) / <= 4, 5 under a time cap (thorough); sequences of <= 2 (quick) / 3 (thorough, time cap) token shapes out of 31 (the 20 token shapes plus dotted/dashed words, trailing backslash, escapes before multi-byte runes, escaped delimiters, unterminated phrases and regexps, bad characters) with symbolic literal bytes and three kinds of gaps; an independent reading of the token rules says which ASCII inputs contain a lexical error (those must make Parse fail); every Peek/Next step; Parse fails whenever the stream has an error token",
		Outside:  "inputs longer than the bound",
	},
}
