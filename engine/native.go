package main

// Native twin: the harness package compiled with the real code from /repo's working tree (same
// overlay), fed with replay vectors. Used to confirm every candidate violation before it is
// printed and to validate sampled symbolic paths against the implementation.

import (
	"bufio"
	"encoding/json"
	"fmt"
	"io"
	"os"
	"os/exec"
	"path/filepath"
	"strconv"
	"strings"
)

type Twin struct {
	raceBin string
	bin     string
	seconds int
}

type twinReq struct {
	Mode    string           `json:"mode,omitempty"`
	Text    string           `json:"text,omitempty"`
	Harness string           `json:"harness"`
	Params  map[string]int64 `json:"params"`
	Vals    []int64          `json:"vals"`
}

// raceProbe builds (once) a -race variant of the twin and runs the concurrent probe on text.
// It reports whether the race detector fired.
func (t *Twin) raceProbe(text string) (bool, error) {
	if t.raceBin == "" {
		ov, err := overlayFiles()
		if err != nil {
			return false, err
		}
		binDir := filepath.Join(verifDir, "bin")
		ovPath := filepath.Join(binDir, fmt.Sprintf("overlay.race.%d.json", os.Getpid()))
		b, _ := json.Marshal(map[string]interface{}{"Replace": ov})
		os.WriteFile(ovPath, b, 0o644)
		defer os.Remove(ovPath)
		bin := filepath.Join(binDir, fmt.Sprintf("zzverifrun.race.%d", os.Getpid()))
		cmd := exec.Command("go", "build", "-race", "-tags", "verif", "-overlay", ovPath, "-o", bin, "./cmd/zzverifrun")
		cmd.Dir = repoDir
		cmd.Env = append(goEnv(), "CGO_ENABLED=1")
		if out, err := cmd.CombinedOutput(); err != nil {
			return false, fmt.Errorf("race twin does not build: %v %s", err, out)
		}
		t.raceBin = bin
	}
	req, _ := json.Marshal(twinReq{Mode: "race", Text: text})
	cmd := exec.Command("timeout", "120", t.raceBin)
	cmd.Stdin = strings.NewReader(string(req) + "\n")
	out, _ := cmd.CombinedOutput()
	return strings.Contains(string(out), "WARNING: DATA RACE"), nil
}

func buildTwin() (*Twin, error) {
	ov, err := overlayFiles()
	if err != nil {
		return nil, err
	}
	binDir := filepath.Join(verifDir, "bin")
	os.MkdirAll(binDir, 0o755)
	ovPath := filepath.Join(binDir, fmt.Sprintf("overlay.%d.json", os.Getpid()))
	b, _ := json.Marshal(map[string]interface{}{"Replace": ov})
	if err := os.WriteFile(ovPath, b, 0o644); err != nil {
		return nil, err
	}
	defer os.Remove(ovPath)
	bin := filepath.Join(binDir, fmt.Sprintf("zzverifrun.%d", os.Getpid()))
	cmd := exec.Command("go", "build", "-tags", "verif", "-overlay", ovPath, "-o", bin, "./cmd/zzverifrun")
	cmd.Dir = repoDir
	cmd.Env = goEnv()
	out, err := cmd.CombinedOutput()
	if err != nil {
		return nil, fmt.Errorf("native twin does not build against this tree: %v\n%s", err, out)
	}
	return &Twin{bin: bin}, nil
}

func (t *Twin) Close() {
	os.Remove(t.bin)
	if t.raceBin != "" {
		os.Remove(t.raceBin)
	}
}

// RunBatch runs the requests in one process (a crash of the process is reported per request).
func (t *Twin) RunBatch(reqs []twinReq) ([][]string, error) { return t.RunBatchT(reqs, 120) }

// RunBatchT: like RunBatch with a wall-clock limit per process.
func (t *Twin) RunBatchT(reqs []twinReq, seconds int) ([][]string, error) {
	t.seconds = seconds
	res := make([][]string, len(reqs))
	i := 0
	for i < len(reqs) {
		n, err := t.runFrom(reqs, res, i)
		if err != nil {
			return nil, err
		}
		if n == i {
			// the process died on request i (fatal error, stack overflow, timeout)
			res[i] = []string{"CRASH"}
			n = i + 1
		}
		i = n
	}
	return res, nil
}

func (t *Twin) runFrom(reqs []twinReq, res [][]string, start int) (int, error) {
	cmd := exec.Command("timeout", strconv.Itoa(t.seconds), t.bin)
	stdin, err := cmd.StdinPipe()
	if err != nil {
		return start, err
	}
	stdout, err := cmd.StdoutPipe()
	if err != nil {
		return start, err
	}
	cmd.Stderr = io.Discard
	if err := cmd.Start(); err != nil {
		return start, err
	}
	go func() {
		w := bufio.NewWriter(stdin)
		for _, r := range reqs[start:] {
			b, _ := json.Marshal(r)
			w.Write(b)
			w.WriteByte('\n')
		}
		w.Flush()
		stdin.Close()
	}()
	sc := bufio.NewScanner(stdout)
	sc.Buffer(make([]byte, 1<<20), 1<<26)
	i := start
	for sc.Scan() && i < len(reqs) {
		var lines []string
		if err := json.Unmarshal(sc.Bytes(), &lines); err != nil {
			lines = []string{"BAD-OUTPUT " + sc.Text()}
		}
		res[i] = lines
		i++
	}
	cmd.Wait()
	return i, nil
}

func hasLine(lines []string, prefix string) bool {
	for _, l := range lines {
		if strings.HasPrefix(l, prefix) {
			return true
		}
	}
	return false
}
