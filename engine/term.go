package main

// Terms: hash-consed SMT terms over Bool and fixed-width bit-vectors, with constant folding,
// a pinning environment (terms known to equal a constant on the current path) and a Go-side
// evaluator used to follow a cached solver model through branches.

import (
	"fmt"
	"math/bits"
	"strings"
	"unicode"
)

type Op uint8

const (
	OConst Op = iota
	OVar
	ONot
	OAnd
	OOr
	OEq
	OUlt
	OUle
	OSlt
	OSle
	OIte
	OAdd
	OSub
	OMul
	OUDiv
	OURem
	OSDiv
	OSRem
	OBAnd
	OBOr
	OBXor
	OShl
	OLShr
	OAShr
	OBNot
	ONeg
	OExtract // k=hi, k2=lo
	OZExt    // to width w
	OSExt
	OApp // uninterpreted/defined function name(a) -> Bool
)

var opNames = map[Op]string{
	ONot: "not", OAnd: "and", OOr: "or", OEq: "=", OUlt: "bvult", OUle: "bvule", OSlt: "bvslt", OSle: "bvsle",
	OIte: "ite", OAdd: "bvadd", OSub: "bvsub", OMul: "bvmul", OUDiv: "bvudiv", OURem: "bvurem", OSDiv: "bvsdiv",
	OSRem: "bvsrem", OBAnd: "bvand", OBOr: "bvor", OBXor: "bvxor", OShl: "bvshl", OLShr: "bvlshr", OAShr: "bvashr",
	OBNot: "bvnot", ONeg: "bvneg",
}

// Term is an SMT term. w == 0 means Bool, otherwise a bit-vector of width w.
type Term struct {
	id      int
	op      Op
	w       int
	a, b, c *Term
	k       uint64
	k2      int
	name    string
}

type termKey struct {
	op      Op
	w       uint8
	a, b, c int32
	k       uint64
	k2      int32
}

type nameKey struct {
	op   Op
	w    uint8
	a    int32
	name string
}

type TermTab struct {
	terms []*Term
	idx   map[termKey]*Term
	nidx  map[nameKey]*Term
	pins  map[int]uint64 // term id -> constant value known on this path
	vars  []*Term
	apps  []*Term
}

func NewTermTab() *TermTab {
	return &TermTab{idx: make(map[termKey]*Term, 1024), nidx: make(map[nameKey]*Term, 64), pins: make(map[int]uint64)}
}

func tid(t *Term) int {
	if t == nil {
		return -1
	}
	return t.id
}

func (tt *TermTab) mk(op Op, w int, a, b, c *Term, k uint64, k2 int, name string) *Term {
	var key termKey
	var nkey nameKey
	named := name != ""
	if named {
		nkey = nameKey{op, uint8(w), int32(tid(a)), name}
		if t, ok := tt.nidx[nkey]; ok {
			return t
		}
	} else {
		key = termKey{op, uint8(w), int32(tid(a)), int32(tid(b)), int32(tid(c)), k, int32(k2)}
		if t, ok := tt.idx[key]; ok {
			return t
		}
	}
	t := &Term{id: len(tt.terms), op: op, w: w, a: a, b: b, c: c, k: k, k2: k2, name: name}
	tt.terms = append(tt.terms, t)
	if named {
		tt.nidx[nkey] = t
	} else {
		tt.idx[key] = t
	}
	if op == OVar {
		tt.vars = append(tt.vars, t)
	}
	if op == OApp {
		tt.apps = append(tt.apps, t)
	}
	return t
}

func mask(w int) uint64 {
	if w >= 64 {
		return ^uint64(0)
	}
	return (uint64(1) << uint(w)) - 1
}

func (tt *TermTab) Const(w int, v uint64) *Term { return tt.mk(OConst, w, nil, nil, nil, v&mask(w), 0, "") }
func (tt *TermTab) Bool(b bool) *Term {
	if b {
		return tt.mk(OConst, 0, nil, nil, nil, 1, 0, "")
	}
	return tt.mk(OConst, 0, nil, nil, nil, 0, 0, "")
}
func (tt *TermTab) Var(name string, w int) *Term { return tt.mk(OVar, w, nil, nil, nil, 0, 0, name) }

func (t *Term) isConst() bool { return t.op == OConst }
func (t *Term) isTrue() bool  { return t.op == OConst && t.w == 0 && t.k == 1 }
func (t *Term) isFalse() bool { return t.op == OConst && t.w == 0 && t.k == 0 }

// cval returns the constant value of t if it is a constant or pinned to one.
func (tt *TermTab) cval(t *Term) (uint64, bool) {
	if t.op == OConst {
		return t.k, true
	}
	if v, ok := tt.pins[t.id]; ok {
		return v, true
	}
	return 0, false
}

func sext(v uint64, w int) int64 {
	if w >= 64 {
		return int64(v)
	}
	sh := uint(64 - w)
	return int64(v<<sh) >> sh
}

func (tt *TermTab) Not(a *Term) *Term {
	if v, ok := tt.cval(a); ok {
		return tt.Bool(v == 0)
	}
	if a.op == ONot {
		return a.a
	}
	return tt.mk(ONot, 0, a, nil, nil, 0, 0, "")
}

func (tt *TermTab) And(a, b *Term) *Term {
	if v, ok := tt.cval(a); ok {
		if v == 0 {
			return tt.Bool(false)
		}
		return b
	}
	if v, ok := tt.cval(b); ok {
		if v == 0 {
			return tt.Bool(false)
		}
		return a
	}
	if a == b {
		return a
	}
	return tt.mk(OAnd, 0, a, b, nil, 0, 0, "")
}

func (tt *TermTab) Or(a, b *Term) *Term {
	if v, ok := tt.cval(a); ok {
		if v == 1 {
			return tt.Bool(true)
		}
		return b
	}
	if v, ok := tt.cval(b); ok {
		if v == 1 {
			return tt.Bool(true)
		}
		return a
	}
	if a == b {
		return a
	}
	return tt.mk(OOr, 0, a, b, nil, 0, 0, "")
}

func (tt *TermTab) Eq(a, b *Term) *Term {
	if a == b {
		return tt.Bool(true)
	}
	if a.w != b.w {
		panic(fmt.Sprintf("Eq width mismatch %d %d", a.w, b.w))
	}
	va, oka := tt.cval(a)
	vb, okb := tt.cval(b)
	if oka && okb {
		return tt.Bool(va == vb)
	}
	if a.w == 0 {
		if oka {
			if va == 1 {
				return b
			}
			return tt.Not(b)
		}
		if okb {
			if vb == 1 {
				return a
			}
			return tt.Not(a)
		}
	}
	// ite(c, k1, k2) == k  folds when k1,k2,k constants
	if okb {
		if r := tt.eqIteConst(a, vb); r != nil {
			return r
		}
	}
	if oka {
		if r := tt.eqIteConst(b, va); r != nil {
			return r
		}
		a, b = b, a
	}
	// zext(x) == const  -> x == const (if fits) else false
	if bc, ok := tt.cval(b); ok && a.op == OZExt {
		if bc&^mask(a.a.w) != 0 {
			return tt.Bool(false)
		}
		return tt.Eq(a.a, tt.Const(a.a.w, bc))
	}
	if a.id > b.id && !b.isConst() {
		a, b = b, a
	}
	return tt.mk(OEq, 0, a, b, nil, 0, 0, "")
}

func (tt *TermTab) eqIteConst(a *Term, k uint64) *Term {
	if a.op != OIte {
		return nil
	}
	depth := 0
	for x := a; x.op == OIte; x = x.c {
		depth++
		if depth > 64 {
			return nil
		}
		if _, ok := tt.cval(x.b); !ok {
			return nil
		}
	}
	// all then-branches constant; else chain ends in something
	var build func(x *Term) *Term
	build = func(x *Term) *Term {
		if x.op != OIte {
			return tt.Eq(x, tt.Const(x.w, k))
		}
		tv, _ := tt.cval(x.b)
		rest := build(x.c)
		if tv == k {
			return tt.Or(x.a, rest)
		}
		return tt.And(tt.Not(x.a), rest)
	}
	last := a
	for last.op == OIte {
		last = last.c
	}
	if _, ok := tt.cval(last); !ok {
		return nil
	}
	return build(a)
}

func (tt *TermTab) Ite(c, a, b *Term) *Term {
	if v, ok := tt.cval(c); ok {
		if v == 1 {
			return a
		}
		return b
	}
	if a == b {
		return a
	}
	if a.w == 0 {
		// boolean ite
		if a.isTrue() && b.isFalse() {
			return c
		}
		if a.isFalse() && b.isTrue() {
			return tt.Not(c)
		}
		return tt.Or(tt.And(c, a), tt.And(tt.Not(c), b))
	}
	return tt.mk(OIte, a.w, c, a, b, 0, 0, "")
}

func (tt *TermTab) cmp(op Op, a, b *Term) *Term {
	if a.w != b.w {
		panic("cmp width mismatch")
	}
	va, oka := tt.cval(a)
	vb, okb := tt.cval(b)
	if oka && okb {
		switch op {
		case OUlt:
			return tt.Bool(va < vb)
		case OUle:
			return tt.Bool(va <= vb)
		case OSlt:
			return tt.Bool(sext(va, a.w) < sext(vb, a.w))
		case OSle:
			return tt.Bool(sext(va, a.w) <= sext(vb, a.w))
		}
	}
	if a == b {
		return tt.Bool(op == OUle || op == OSle)
	}
	// zext(x) cmp const where both are non-negative in the wide type
	if okb && a.op == OZExt && a.w > a.a.w {
		nw := a.a.w
		if op == OSlt || op == OSle {
			sv := sext(vb, a.w)
			if sv < 0 {
				return tt.Bool(false)
			}
			if uint64(sv) > mask(nw) {
				return tt.Bool(true)
			}
			if op == OSlt {
				return tt.cmp(OUlt, a.a, tt.Const(nw, uint64(sv)))
			}
			return tt.cmp(OUle, a.a, tt.Const(nw, uint64(sv)))
		}
		if vb > mask(nw) {
			return tt.Bool(true)
		}
		return tt.cmp(op, a.a, tt.Const(nw, vb))
	}
	if oka && b.op == OZExt && b.w > b.a.w {
		nw := b.a.w
		if op == OSlt || op == OSle {
			sv := sext(va, b.w)
			if sv < 0 {
				return tt.Bool(true)
			}
			if uint64(sv) > mask(nw) {
				return tt.Bool(false)
			}
			if op == OSlt {
				return tt.cmp(OUlt, tt.Const(nw, uint64(sv)), b.a)
			}
			return tt.cmp(OUle, tt.Const(nw, uint64(sv)), b.a)
		}
		if va > mask(nw) {
			return tt.Bool(false)
		}
		return tt.cmp(op, tt.Const(nw, va), b.a)
	}
	if op == OUlt && okb && vb == 0 {
		return tt.Bool(false)
	}
	if op == OUle && oka && va == 0 {
		return tt.Bool(true)
	}
	return tt.mk(op, 0, a, b, nil, 0, 0, "")
}

func (tt *TermTab) Ult(a, b *Term) *Term { return tt.cmp(OUlt, a, b) }
func (tt *TermTab) Ule(a, b *Term) *Term { return tt.cmp(OUle, a, b) }
func (tt *TermTab) Slt(a, b *Term) *Term { return tt.cmp(OSlt, a, b) }
func (tt *TermTab) Sle(a, b *Term) *Term { return tt.cmp(OSle, a, b) }

func foldBin(op Op, w int, x, y uint64) (uint64, bool) {
	m := mask(w)
	switch op {
	case OAdd:
		return (x + y) & m, true
	case OSub:
		return (x - y) & m, true
	case OMul:
		return (x * y) & m, true
	case OUDiv:
		if y == 0 {
			return m, true
		}
		return x / y, true
	case OURem:
		if y == 0 {
			return x, true
		}
		return x % y, true
	case OSDiv:
		sx, sy := sext(x, w), sext(y, w)
		if sy == 0 {
			if sx < 0 {
				return 1, true
			}
			return m, true
		}
		if sy == -1 {
			return uint64(-sx) & m, true
		}
		return uint64(sx/sy) & m, true
	case OSRem:
		sx, sy := sext(x, w), sext(y, w)
		if sy == 0 {
			return x, true
		}
		if sy == -1 {
			return 0, true
		}
		return uint64(sx%sy) & m, true
	case OBAnd:
		return x & y, true
	case OBOr:
		return x | y, true
	case OBXor:
		return x ^ y, true
	case OShl:
		if y >= uint64(w) {
			return 0, true
		}
		return (x << y) & m, true
	case OLShr:
		if y >= uint64(w) {
			return 0, true
		}
		return x >> y, true
	case OAShr:
		sx := sext(x, w)
		if y >= uint64(w) {
			if sx < 0 {
				return m, true
			}
			return 0, true
		}
		return uint64(sx>>y) & m, true
	}
	return 0, false
}

func (tt *TermTab) Bin(op Op, a, b *Term) *Term {
	if a.w != b.w {
		panic(fmt.Sprintf("Bin %v width mismatch %d %d", opNames[op], a.w, b.w))
	}
	w := a.w
	va, oka := tt.cval(a)
	vb, okb := tt.cval(b)
	if oka && okb {
		v, _ := foldBin(op, w, va, vb)
		return tt.Const(w, v)
	}
	switch op {
	case OAdd, OBOr, OBXor:
		if oka && va == 0 {
			return b
		}
		if okb && vb == 0 {
			return a
		}
	case OSub, OShl, OLShr, OAShr:
		if okb && vb == 0 {
			return a
		}
	case OMul:
		if oka && va == 1 {
			return b
		}
		if okb && vb == 1 {
			return a
		}
		if (oka && va == 0) || (okb && vb == 0) {
			return tt.Const(w, 0)
		}
	case OBAnd:
		if (oka && va == 0) || (okb && vb == 0) {
			return tt.Const(w, 0)
		}
		if oka && va == mask(w) {
			return b
		}
		if okb && vb == mask(w) {
			return a
		}
		// zext(x) & m where m covers all bits of x
		if okb && a.op == OZExt && vb&mask(a.a.w) == mask(a.a.w) {
			return a
		}
	}
	return tt.mk(op, w, a, b, nil, 0, 0, "")
}

func (tt *TermTab) BNot(a *Term) *Term {
	if v, ok := tt.cval(a); ok {
		return tt.Const(a.w, ^v)
	}
	return tt.mk(OBNot, a.w, a, nil, nil, 0, 0, "")
}

func (tt *TermTab) Neg(a *Term) *Term {
	if v, ok := tt.cval(a); ok {
		return tt.Const(a.w, -v)
	}
	return tt.mk(ONeg, a.w, a, nil, nil, 0, 0, "")
}

func (tt *TermTab) Extract(a *Term, hi, lo int) *Term {
	if lo == 0 && hi == a.w-1 {
		return a
	}
	if v, ok := tt.cval(a); ok {
		return tt.Const(hi-lo+1, v>>uint(lo))
	}
	if (a.op == OZExt || a.op == OSExt) && lo == 0 {
		if hi+1 == a.a.w {
			return a.a
		}
		if hi+1 < a.a.w {
			return tt.Extract(a.a, hi, 0)
		}
		if a.op == OZExt {
			return tt.ZExt(a.a, hi+1)
		}
		return tt.SExt(a.a, hi+1)
	}
	return tt.mk(OExtract, hi-lo+1, a, nil, nil, uint64(hi), lo, "")
}

func (tt *TermTab) ZExt(a *Term, w int) *Term {
	if w == a.w {
		return a
	}
	if w < a.w {
		return tt.Extract(a, w-1, 0)
	}
	if v, ok := tt.cval(a); ok {
		return tt.Const(w, v)
	}
	if a.op == OZExt {
		return tt.ZExt(a.a, w)
	}
	if a.op == OIte {
		if _, ok1 := tt.cval(a.b); ok1 {
			if _, ok2 := tt.cval(a.c); ok2 || a.c.op == OIte {
				return tt.Ite(a.a, tt.ZExt(a.b, w), tt.ZExt(a.c, w))
			}
		}
	}
	return tt.mk(OZExt, w, a, nil, nil, 0, 0, "")
}

func (tt *TermTab) SExt(a *Term, w int) *Term {
	if w == a.w {
		return a
	}
	if w < a.w {
		return tt.Extract(a, w-1, 0)
	}
	if v, ok := tt.cval(a); ok {
		return tt.Const(w, uint64(sext(v, a.w)))
	}
	if a.op == OZExt && a.w > a.a.w {
		return tt.ZExt(a.a, w)
	}
	if a.op == OIte {
		if _, ok1 := tt.cval(a.b); ok1 {
			if _, ok2 := tt.cval(a.c); ok2 || a.c.op == OIte {
				return tt.Ite(a.a, tt.SExt(a.b, w), tt.SExt(a.c, w))
			}
		}
	}
	return tt.mk(OSExt, w, a, nil, nil, 0, 0, "")
}

// App is an application of a solver-side defined predicate (isLetter, isDigit) to a 32-bit rune.
func (tt *TermTab) App(name string, a *Term) *Term {
	if v, ok := tt.cval(a); ok {
		return tt.Bool(evalApp(name, v))
	}
	return tt.mk(OApp, 0, a, nil, nil, 0, 0, name)
}

func evalApp(name string, v uint64) bool {
	r := rune(int32(uint32(v)))
	switch strings.TrimRight(name, "0123456789") {
	case "isLetter":
		return unicode.IsLetter(r)
	case "isDigit":
		return unicode.IsDigit(r)
	}
	panic("unknown app " + name)
}

// ---------------------------------------------------------------------------------------------
// evaluation under a model

type Model struct {
	vals  map[string]uint64
	cache map[int]uint64
}

func NewModel(vals map[string]uint64) *Model {
	if vals == nil {
		vals = map[string]uint64{}
	}
	return &Model{vals: vals, cache: map[int]uint64{}}
}

func (m *Model) Eval(t *Term) uint64 {
	if t.op == OConst {
		return t.k
	}
	if v, ok := m.cache[t.id]; ok {
		return v
	}
	var v uint64
	switch t.op {
	case OVar:
		v = m.vals[t.name] & mask(max(t.w, 1))
	case ONot:
		v = 1 - m.Eval(t.a)
	case OAnd:
		v = m.Eval(t.a) & m.Eval(t.b)
	case OOr:
		v = m.Eval(t.a) | m.Eval(t.b)
	case OEq:
		if m.Eval(t.a) == m.Eval(t.b) {
			v = 1
		}
	case OUlt:
		if m.Eval(t.a) < m.Eval(t.b) {
			v = 1
		}
	case OUle:
		if m.Eval(t.a) <= m.Eval(t.b) {
			v = 1
		}
	case OSlt:
		if sext(m.Eval(t.a), t.a.w) < sext(m.Eval(t.b), t.a.w) {
			v = 1
		}
	case OSle:
		if sext(m.Eval(t.a), t.a.w) <= sext(m.Eval(t.b), t.a.w) {
			v = 1
		}
	case OIte:
		if m.Eval(t.a) == 1 {
			v = m.Eval(t.b)
		} else {
			v = m.Eval(t.c)
		}
	case OBNot:
		v = ^m.Eval(t.a) & mask(t.w)
	case ONeg:
		v = -m.Eval(t.a) & mask(t.w)
	case OExtract:
		v = (m.Eval(t.a) >> uint(t.k2)) & mask(t.w)
	case OZExt:
		v = m.Eval(t.a)
	case OSExt:
		v = uint64(sext(m.Eval(t.a), t.a.w)) & mask(t.w)
	case OApp:
		if evalApp(t.name, m.Eval(t.a)) {
			v = 1
		}
	default:
		v, _ = foldBin(t.op, t.w, m.Eval(t.a), m.Eval(t.b))
	}
	m.cache[t.id] = v
	return v
}

// ---------------------------------------------------------------------------------------------
// SMT-LIB printing

func sortStr(w int) string {
	if w == 0 {
		return "Bool"
	}
	return fmt.Sprintf("(_ BitVec %d)", w)
}

func constStr(w int, v uint64) string {
	if w == 0 {
		if v == 1 {
			return "true"
		}
		return "false"
	}
	if w%4 == 0 {
		return fmt.Sprintf("#x%0*x", w/4, v)
	}
	return fmt.Sprintf("#b%0*b", w, v)
}

func smtName(n string) string {
	// names come from harness string constants plus counters: restrict to simple symbols
	var sb strings.Builder
	for _, r := range n {
		if r == '_' || r == '.' || (r >= '0' && r <= '9') || (r >= 'a' && r <= 'z') || (r >= 'A' && r <= 'Z') {
			sb.WriteRune(r)
		} else {
			sb.WriteByte('_')
		}
	}
	return "v_" + sb.String()
}

// body prints the defining expression of t in terms of references to its children.
func (t *Term) body(ref func(*Term) string) string {
	switch t.op {
	case OConst:
		return constStr(t.w, t.k)
	case OVar:
		return smtName(t.name)
	case OExtract:
		return fmt.Sprintf("((_ extract %d %d) %s)", t.k, t.k2, ref(t.a))
	case OZExt:
		return fmt.Sprintf("((_ zero_extend %d) %s)", t.w-t.a.w, ref(t.a))
	case OSExt:
		return fmt.Sprintf("((_ sign_extend %d) %s)", t.w-t.a.w, ref(t.a))
	case OApp:
		return fmt.Sprintf("(%s %s)", t.name, ref(t.a))
	case OIte:
		return fmt.Sprintf("(ite %s %s %s)", ref(t.a), ref(t.b), ref(t.c))
	case ONot, OBNot, ONeg:
		return fmt.Sprintf("(%s %s)", opNames[t.op], ref(t.a))
	default:
		return fmt.Sprintf("(%s %s %s)", opNames[t.op], ref(t.a), ref(t.b))
	}
}

// unicodePrelude builds define-funs for isLetter / isDigit from the real unicode range tables of
// the Go toolchain this engine is built with: one definition per UTF-8 length class over the
// narrowest sufficient bit-vector (8 bits Latin-1, 11, 16, 21 bits), so that queries stay small.
func unicodePrelude() string {
	var sb strings.Builder
	emit := func(name string, tab *unicode.RangeTable, w int, clipLo, clipHi uint32) {
		var parts []string
		hexw := (w + 3) / 4
		lit := func(v uint32) string {
			if w%4 == 0 {
				return fmt.Sprintf("#x%0*x", hexw, v)
			}
			return fmt.Sprintf("#b%0*b", w, v)
		}
		add := func(lo, hi, stride uint32) {
			if stride > 2 || (stride == 2 && (lo < clipLo || hi > clipHi)) {
				for v := lo; v <= hi; v += stride {
					if v >= clipLo && v <= clipHi {
						parts = append(parts, fmt.Sprintf("(= r %s)", lit(v)))
					}
				}
				return
			}
			if hi < clipLo || lo > clipHi {
				return
			}
			if lo < clipLo {
				lo = clipLo
			}
			if hi > clipHi {
				hi = clipHi
			}
			switch {
			case lo == hi:
				parts = append(parts, fmt.Sprintf("(= r %s)", lit(lo)))
			case stride == 1:
				parts = append(parts, fmt.Sprintf("(and (bvule %s r) (bvule r %s))", lit(lo), lit(hi)))
			default:
				parts = append(parts, fmt.Sprintf("(and (bvule %s r) (bvule r %s) (= ((_ extract 0 0) r) #b%d))", lit(lo), lit(hi), lo&1))
			}
		}
		for _, r := range tab.R16 {
			add(uint32(r.Lo), uint32(r.Hi), uint32(r.Stride))
		}
		for _, r := range tab.R32 {
			add(r.Lo, r.Hi, r.Stride)
		}
		if len(parts) == 0 {
			parts = append(parts, "false")
		}
		fmt.Fprintf(&sb, "(define-fun %s ((r (_ BitVec %d))) Bool (or %s false))\n", name, w, strings.Join(parts, " "))
	}
	for _, d := range []struct {
		n string
		t *unicode.RangeTable
	}{{"isLetter", unicode.Letter}, {"isDigit", unicode.Digit}} {
		emit(d.n+"8", d.t, 8, 0, 0xFF)
		emit(d.n+"11", d.t, 11, 0x80, 0x7FF)
		emit(d.n+"16", d.t, 16, 0x800, 0xFFFF)
		emit(d.n+"21", d.t, 21, 0x10000, 0x10FFFF)
	}
	return sb.String()
}

var _ = bits.Len
