package main

import (
	"encoding/json"
	"fmt"
	"os"
	"runtime"
	"runtime/debug"
	"runtime/pprof"
	"sort"
	"strconv"
	"strings"
	"syscall"
	"time"
)

func main() {
	if len(os.Args) < 2 {
		fmt.Fprintln(os.Stderr, "usage: vcheck run <property> [--tier quick|thorough] | harness <name> k=v... | replay <file> | selfcheck")
		os.Exit(2)
	}
	if pf := os.Getenv("VERIF_CPUPROFILE"); pf != "" {
		f, _ := os.Create(pf)
		pprof.StartCPUProfile(f)
		defer pprof.StopCPUProfile()
	}
	debug.SetGCPercent(400)
	code := 2
	defer func() { closeSolverPool(); pprof.StopCPUProfile(); os.Exit(code) }()
	switch os.Args[1] {
	case "harness":
		code = cmdHarness(os.Args[2:])
	case "run":
		code = cmdRun(os.Args[2:])
	case "replay":
		code = cmdReplay(os.Args[2:])
	case "selfcheck":
		code = cmdSelfcheck(os.Args[2:])
	default:
		fmt.Fprintln(os.Stderr, "unknown command", os.Args[1])
	}
}

// cmdHarness explores one harness and prints raw statistics (development aid).
func cmdHarness(args []string) int {
	if len(args) < 1 {
		return 2
	}
	name := args[0]
	params := map[string]int64{}
	workers := runtime.NumCPU()
	var maxPaths int64
	solver := envOr("VERIF_SOLVER", "z3-new")
	for _, a := range args[1:] {
		kv := strings.SplitN(a, "=", 2)
		if len(kv) != 2 {
			continue
		}
		switch kv[0] {
		case "workers":
			workers, _ = strconv.Atoi(kv[1])
		case "maxpaths":
			maxPaths, _ = strconv.ParseInt(kv[1], 10, 64)
		case "solver":
			solver = kv[1]
		default:
			v, _ := strconv.ParseInt(kv[1], 10, 64)
			params[kv[0]] = v
		}
	}
	t0 := time.Now()
	ld, err := loadProgram()
	if err != nil {
		fmt.Fprintln(os.Stderr, "load:", err)
		return 3
	}
	fmt.Printf("loaded in %.1fs\n", time.Since(t0).Seconds())
	entry := ld.harness.Func("H_" + name)
	if entry == nil {
		fmt.Fprintln(os.Stderr, "no harness H_"+name)
		return 3
	}
	ex := NewExplorer(ld.prog, entry, name, params, workers)
	ex.maxPaths = maxPaths
	ex.solverK = solver
	t1 := time.Now()
	if err := ex.Run(); err != nil {
		fmt.Fprintln(os.Stderr, "explore:", err)
		return 3
	}
	el := time.Since(t1)
	fmt.Printf("paths=%d decisions=%d steps=%d queries=%d (sat %d unsat %d unknown %d) solver=%.2fs wall=%.2fs truncated=%v\n",
		ex.Paths, ex.Decisions, ex.Steps, ex.Queries, ex.SatN, ex.UnsatN, ex.UnkN, ex.SolverTime.Seconds(), el.Seconds(), ex.Truncated)
	var ru, rc syscall.Rusage
	syscall.Getrusage(syscall.RUSAGE_SELF, &ru)
	syscall.Getrusage(syscall.RUSAGE_CHILDREN, &rc)
	fmt.Printf("rusage self user=%.1fs sys=%.1fs children user=%.1fs sys=%.1fs\n", float64(ru.Utime.Sec)+float64(ru.Utime.Usec)/1e6, float64(ru.Stime.Sec)+float64(ru.Stime.Usec)/1e6, float64(rc.Utime.Sec)+float64(rc.Utime.Usec)/1e6, float64(rc.Stime.Sec)+float64(rc.Stime.Usec)/1e6)
	fmt.Printf("byte-domain decisions=%d rechecked by z3=%d forks=%d\n", ex.domDecided.Load(), ex.domRechecked.Load(), ex.domForks.Load())
	printMap("ends", ex.Ends)
	printMap("cuts", ex.Cuts)
	printMap("engine-errors", ex.EngineErrs)
	printMap("reach", ex.Reach)
	printMap("nondet", ex.Nondet)
	ks := []string{}
	for k := range ex.Asserts {
		ks = append(ks, k)
	}
	sort.Strings(ks)
	for _, k := range ks {
		fmt.Printf("  assert %-24s checked=%d violated=%d\n", k, ex.Asserts[k].Checked, ex.Asserts[k].Violated)
	}
	for k, cs := range ex.Cands {
		fmt.Printf("  candidate %s: %s  [%s]\n", k, cs[0].Text, cs[0].Msg)
	}
	for i, s := range ex.Samples {
		if i < 8 {
			fmt.Println("  sample:", s)
		}
	}
	b, _ := json.Marshal(ex.Reach)
	_ = b
	return 0
}

func printMap(title string, m map[string]int64) {
	if len(m) == 0 {
		return
	}
	ks := []string{}
	for k := range m {
		ks = append(ks, k)
	}
	sort.Strings(ks)
	fmt.Printf("%s:\n", title)
	for _, k := range ks {
		fmt.Printf("  %-60s %d\n", k, m[k])
	}
}

func cmdSelfcheck(args []string) int { return 2 }
