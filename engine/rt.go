package main

// Engine side of the harness vocabulary (rt* functions of the harness package) and the
// package-level state of the program under test (boot, copy-on-first-use, unchanged check).

import (
	"fmt"
	"go/types"
	"strings"

	"golang.org/x/tools/go/ssa"
)

const modulePath = "github.com/grindlemire/go-lucene"
const harnessPkgPath = modulePath + "/zzverif"

type intrinsic func(in *Interp, fn *ssa.Function, args []value) value

var rtIntrinsics map[string]intrinsic

func init() {
	rtIntrinsics = map[string]intrinsic{
		"rtParam":      rtParam,
		"rtByte":       rtByte,
		"rtBytes":      rtBytes,
		"rtInt":        rtInt,
		"rtBool":       rtBool,
		"rtChoose":     rtChoose,
		"rtAssume":     rtAssume,
		"rtAssert":     rtAssert,
		"rtReach":      rtReach,
		"rtTag":        rtTag,
		"rtObserve":    rtObserve,
		"rtObserveInt": rtObserve,
		"rtIn":         rtIn,
		"rtOr":         rtOr,
		"rtAnd":        rtAnd,
		"rtNot":        rtNot,
		"rtEpoch":      rtEpoch,
		"rtSnapshot":   rtSnapshot,
		"rtUnchanged":  rtUnchanged,
		"rtCut":        rtCut,
		"rtNative":     func(in *Interp, fn *ssa.Function, args []value) value { return false },
	}
}

func concStr(v value, what string) string {
	s, ok := v.(string)
	if !ok {
		panic(engineErr("%s must be a concrete string, have %T", what, v))
	}
	return s
}

func rtParam(in *Interp, fn *ssa.Function, args []value) value {
	n := concStr(args[0], "rtParam name")
	return in.params[n] // parameters that are not configured are 0
}

func rtByte(in *Interp, fn *ssa.Function, args []value) value {
	return in.newInput(concStr(args[0], "rtByte name"), 8)
}

func rtBytes(in *Interp, fn *ssa.Function, args []value) value {
	name := concStr(args[0], "rtBytes name")
	n := in.concInt(args[1], "rtBytes n")
	out := make([]value, n)
	for i := range out {
		out[i] = in.newInput(name, 8)
	}
	return out
}

func rtInt(in *Interp, fn *ssa.Function, args []value) value {
	name := concStr(args[0], "rtInt name")
	lo := in.concInt(args[1], "rtInt lo")
	hi := in.concInt(args[2], "rtInt hi")
	t := in.newInput(name, 64)
	c := in.tab.And(in.tab.Sle(in.tab.Const(64, uint64(lo)), t), in.tab.Sle(t, in.tab.Const(64, uint64(hi))))
	in.assume(c)
	return t
}

func rtBool(in *Interp, fn *ssa.Function, args []value) value {
	return in.newInput(concStr(args[0], "rtBool name"), 0)
}

func rtChoose(in *Interp, fn *ssa.Function, args []value) value {
	name := concStr(args[0], "rtChoose name")
	n := in.concInt(args[1], "rtChoose n")
	c := in.choose(int(n))
	in.inputs = append(in.inputs, inputRec{c: int64(c), n: name})
	return int64(c)
}

// assume adds c to the path condition, ending the path when it is infeasible.
func (in *Interp) assume(c *Term) {
	if v, ok := in.tab.cval(c); ok {
		if v == 0 {
			in.assumeKills++
			panic(&pathEnd{kind: endAssumeFail, msg: "assume false"})
		}
		return
	}
	if dv := in.domLook(c); dv.single {
		if dv.decided {
			if !dv.value {
				in.assumeKills++
				panic(&pathEnd{kind: endAssumeFail, msg: "assume infeasible"})
			}
			return
		}
		if dv.free && in.model.Eval(c) != 1 {
			// patch the cached model with a value of the variable that satisfies c
			m := make(map[string]uint64, len(in.model.vals))
			for k, x := range in.model.vals {
				m[k] = x
			}
			m[dv.x.name] = uint64(dv.t.first())
			in.model = NewModel(m)
		}
	}
	if in.model.Eval(c) != 1 {
		verdict, m := in.check(c, true)
		switch verdict {
		case Sat:
			in.model = NewModel(m)
		case Unsat:
			in.assumeKills++
			panic(&pathEnd{kind: endAssumeFail, msg: "assume infeasible"})
		default:
			panic(&pathEnd{kind: endInconclusive, msg: "assume in " + in.where()})
		}
	}
	in.take(c, true)
}

func rtAssume(in *Interp, fn *ssa.Function, args []value) value {
	switch c := args[0].(type) {
	case bool:
		if !c {
			in.assumeKills++
			panic(&pathEnd{kind: endAssumeFail, msg: "assume false"})
		}
	case *Term:
		in.assume(c)
	}
	return nil
}

func rtAssert(in *Interp, fn *ssa.Function, args []value) value {
	id := concStr(args[0], "rtAssert id")
	st := in.stat(id)
	fresh := !in.replaying()
	if fresh {
		st.Checked++
	}
	switch c := args[1].(type) {
	case bool:
		if !c {
			if fresh {
				st.Violated++
				in.candidate(id, "", "", in.model)
			}
			// concretely false on this path: recorded; nothing is assumed, the path goes on
		}
	case *Term:
		if v, ok := in.tab.cval(c); ok {
			return rtAssert(in, fn, []value{args[0], v == 1})
		}
		if fresh {
			verdict, m := in.check(in.tab.Not(c), true)
			switch verdict {
			case Sat:
				st.Violated++
				in.candidate(id, "", "", NewModel(m))
			case Unknown:
				in.ex.noteInconclusive("assert " + id)
			}
		}
		if in.ex.assumeOnly == nil || in.ex.assumeOnly[id] {
			in.assume(c)
		}
	}
	return nil
}

func rtReach(in *Interp, fn *ssa.Function, args []value) value {
	if !in.replaying() {
		in.reach[concStr(args[0], "rtReach id")]++
	}
	return nil
}

func rtTag(in *Interp, fn *ssa.Function, args []value) value {
	in.tags = append(in.tags, concStr(args[0], "rtTag"))
	return nil
}

func rtObserve(in *Interp, fn *ssa.Function, args []value) value {
	in.obsVals = append(in.obsVals, obsRec{concStr(args[0], "rtObserve name"), args[1]})
	return nil
}

// rtIn(b, set): membership of a byte in a constant set, built as one formula (no fork).
func rtIn(in *Interp, fn *ssa.Function, args []value) value {
	set := concStr(args[1], "rtIn set")
	switch b := args[0].(type) {
	case int64:
		return strings.IndexByte(set, byte(b)) >= 0
	case *Term:
		res := in.tab.Bool(false)
		// compress runs into ranges
		var present [256]bool
		for i := 0; i < len(set); i++ {
			present[set[i]] = true
		}
		for lo := 0; lo < 256; lo++ {
			if !present[lo] {
				continue
			}
			hi := lo
			for hi+1 < 256 && present[hi+1] {
				hi++
			}
			var c *Term
			if lo == hi {
				c = in.tab.Eq(b, in.tab.Const(8, uint64(lo)))
			} else {
				c = in.tab.And(in.tab.Ule(in.tab.Const(8, uint64(lo)), b), in.tab.Ule(b, in.tab.Const(8, uint64(hi))))
			}
			res = in.tab.Or(res, c)
			lo = hi
		}
		return in.simpBool(res)
	}
	panic(engineErr("rtIn of %T", args[0]))
}

func rtOr(in *Interp, fn *ssa.Function, args []value) value {
	return in.simpBool(in.tab.Or(in.boolTerm(args[0]), in.boolTerm(args[1])))
}
func rtAnd(in *Interp, fn *ssa.Function, args []value) value {
	return in.simpBool(in.tab.And(in.boolTerm(args[0]), in.boolTerm(args[1])))
}
func rtNot(in *Interp, fn *ssa.Function, args []value) value {
	return in.simpBool(in.tab.Not(in.boolTerm(args[0])))
}

func rtEpoch(in *Interp, fn *ssa.Function, args []value) value {
	in.epoch = true
	return nil
}

func rtCut(in *Interp, fn *ssa.Function, args []value) value {
	panic(cut("harness: %s", concStr(args[0], "rtCut reason")))
}

type snapshot struct {
	orig value
	cp   value
}

func rtSnapshot(in *Interp, fn *ssa.Function, args []value) value {
	memo := map[interface{}]interface{}{}
	in.snaps = append(in.snaps, snapshot{orig: args[0], cp: deepCopy(args[0], memo)})
	return int64(len(in.snaps) - 1)
}

func rtUnchanged(in *Interp, fn *ssa.Function, args []value) value {
	h := in.concInt(args[0], "snapshot handle")
	s := in.snaps[h]
	return deepEqual(s.orig, s.cp, map[[2]interface{}]bool{})
}

// ---------------------------------------------------------------------------------------------
// globals

type globalsInit struct {
	vals map[*ssa.Global]*value
}

// packages whose init functions are executed concretely at start-up
func bootPackage(path string) bool {
	return strings.HasPrefix(path, modulePath) || path == "unicode/utf8" || path == "strconv"
}

func bootGlobals(prog *ssa.Program) *globalsInit {
	g := &globalsInit{vals: map[*ssa.Global]*value{}}
	in := &Interp{prog: prog, tab: NewTermTab(), model: NewModel(nil), names: map[string]int{}, globals: g.vals,
		budget: 1 << 40, reach: map[string]int{}, asserts: map[string]*assertStat{}, boot: true}
	// initialise in dependency order
	done := map[*ssa.Package]bool{}
	var visit func(p *ssa.Package)
	visit = func(p *ssa.Package) {
		if p == nil || done[p] {
			return
		}
		done[p] = true
		for _, imp := range p.Pkg.Imports() {
			visit(prog.Package(imp))
		}
		if !bootPackage(p.Pkg.Path()) {
			return
		}
		if f := p.Func("init"); f != nil {
			func() {
				defer func() {
					if r := recover(); r != nil {
						fmt.Printf("note: init of %s stopped: %v\n", p.Pkg.Path(), describePanic(r))
					}
				}()
				in.callSSA(f, nil, nil)
			}()
		}
	}
	for _, p := range prog.AllPackages() {
		if strings.HasPrefix(p.Pkg.Path(), modulePath) {
			visit(p)
		}
	}
	return g
}

func describePanic(r interface{}) string {
	switch r := r.(type) {
	case *pathEnd:
		return fmt.Sprintf("pathEnd kind=%d %s %s", r.kind, r.msg, r.site)
	case *engineError:
		return "engine error: " + r.msg
	}
	return fmt.Sprint(r)
}

func (in *Interp) globalAddr(g *ssa.Global) *value {
	if p, ok := in.globals[g]; ok {
		return p
	}
	if in.boot {
		cell := new(value)
		*cell = zero(deref(g.Type()))
		in.globals[g] = cell
		return cell
	}
	src, ok := in.ex.initG.vals[g]
	var cell *value
	if ok {
		cell = deepCopy(src, in.copied).(*value)
	} else {
		cell = new(value)
		*cell = zero(deref(g.Type()))
	}
	in.globals[g] = cell
	return cell
}

func (in *Interp) checkGlobalsUnchanged() {
	for g, cell := range in.globals {
		if g.Pkg == nil || !strings.HasPrefix(g.Pkg.Pkg.Path(), modulePath) || strings.HasPrefix(g.Pkg.Pkg.Path(), harnessPkgPath) {
			continue
		}
		src, ok := in.ex.initG.vals[g]
		if !ok {
			continue
		}
		st := in.stat("globals-unchanged")
		st.Checked++
		if !deepEqual(cell, src, map[[2]interface{}]bool{}) {
			st.Violated++
			in.candidate("globals-unchanged", "package-level variable "+g.String()+" was modified", g.String(), in.model)
		}
	}
}

func deepCopy(v value, memo map[interface{}]interface{}) value {
	switch v := v.(type) {
	case *value:
		if v == nil {
			return v
		}
		if c, ok := memo[v]; ok {
			return c.(*value)
		}
		n := new(value)
		memo[v] = n
		*n = deepCopy(*v, memo)
		return n
	case structure:
		c := make(structure, len(v))
		for i, f := range v {
			c[i] = deepCopy(f, memo)
		}
		return c
	case array:
		c := make(array, len(v))
		for i, f := range v {
			c[i] = deepCopy(f, memo)
		}
		return c
	case []value:
		if v == nil {
			return v
		}
		full := v[:cap(v)]
		c := make([]value, len(full))
		for i, f := range full {
			c[i] = deepCopy(f, memo)
		}
		return c[:len(v)]
	case *hmap:
		if v == nil {
			return v
		}
		if c, ok := memo[v]; ok {
			return c.(*hmap)
		}
		n := newHmap(v.kt)
		memo[v] = n
		for _, e := range v.entries {
			if _, sym := e.k.(*symStr); sym {
				n.entries = append(n.entries, hentry{e.k, deepCopy(e.v, memo)})
				n.nsym++
				continue
			}
			n.insert(deepCopy(e.k, memo), deepCopy(e.v, memo))
		}
		return n
	case iface:
		return iface{t: v.t, v: deepCopy(v.v, memo)}
	case *closure:
		if c, ok := memo[v]; ok {
			return c.(*closure)
		}
		n := &closure{fn: v.fn}
		memo[v] = n
		n.env = make([]value, len(v.env))
		for i, e := range v.env {
			n.env[i] = deepCopy(e, memo)
		}
		return n
	case tuple:
		c := make(tuple, len(v))
		for i, f := range v {
			c[i] = deepCopy(f, memo)
		}
		return c
	}
	return v
}

func deepEqual(a, b value, seen map[[2]interface{}]bool) bool {
	switch av := a.(type) {
	case *value:
		bv, ok := b.(*value)
		if !ok {
			return false
		}
		if av == nil || bv == nil {
			return av == bv
		}
		k := [2]interface{}{av, bv}
		if seen[k] {
			return true
		}
		seen[k] = true
		return deepEqual(*av, *bv, seen)
	case structure:
		bv, ok := b.(structure)
		if !ok || len(av) != len(bv) {
			return false
		}
		for i := range av {
			if !deepEqual(av[i], bv[i], seen) {
				return false
			}
		}
		return true
	case array:
		bv, ok := b.(array)
		if !ok || len(av) != len(bv) {
			return false
		}
		for i := range av {
			if !deepEqual(av[i], bv[i], seen) {
				return false
			}
		}
		return true
	case []value:
		bv, ok := b.([]value)
		if !ok || len(av) != len(bv) || (av == nil) != (bv == nil) || cap(av) != cap(bv) {
			return false
		}
		// the whole backing array counts: a scratch buffer re-sliced to length 0 still changed
		af, bf := av[:cap(av)], bv[:cap(bv)]
		for i := range af {
			if !deepEqual(af[i], bf[i], seen) {
				return false
			}
		}
		return true
	case *hmap:
		bv, ok := b.(*hmap)
		if !ok {
			return false
		}
		if av == nil || bv == nil {
			return av == bv
		}
		if len(av.entries) != len(bv.entries) {
			return false
		}
		if av.nsym > 0 || bv.nsym > 0 { // symbolic keys: same entries in the same order
			for i, e := range av.entries {
				if !deepEqual(e.k, bv.entries[i].k, seen) || !deepEqual(e.v, bv.entries[i].v, seen) {
					return false
				}
			}
			return true
		}
		for _, e := range av.entries {
			o, found := bv.lookup(e.k)
			if !found || !deepEqual(e.v, o, seen) {
				return false
			}
		}
		return true
	case iface:
		bv, ok := b.(iface)
		if !ok {
			return false
		}
		if av.t == nil || bv.t == nil {
			return av.t == nil && bv.t == nil
		}
		return types.Identical(av.t, bv.t) && deepEqual(av.v, bv.v, seen)
	case *closure:
		bv, ok := b.(*closure)
		if !ok || av.fn != bv.fn || len(av.env) != len(bv.env) {
			return false
		}
		for i := range av.env {
			if !deepEqual(av.env[i], bv.env[i], seen) {
				return false
			}
		}
		return true
	case *symStr:
		bv, ok := b.(*symStr)
		if !ok || len(av.b) != len(bv.b) || av.opaque != bv.opaque {
			return false
		}
		for i := range av.b {
			if av.b[i] != bv.b[i] {
				return false
			}
		}
		return true
	case tuple:
		bv, ok := b.(tuple)
		if !ok || len(av) != len(bv) {
			return false
		}
		for i := range av {
			if !deepEqual(av[i], bv[i], seen) {
				return false
			}
		}
		return true
	case float64:
		bv, ok := b.(float64)
		return ok && (av == bv || (av != av && bv != bv))
	}
	defer func() { recover() }()
	return a == b
}
