package main

// PostgreSQL's own parser as referee for SQL-syntax claims: bin/pgconfirm (pg_query_go, the
// PostgreSQL 15 grammar). A candidate of an SQL-confinement assertion that the native twin
// reproduces is reported only if the real parser's tree shows the problem too; otherwise the
// harness's SQL model is wrong and the candidate is dropped as unconfirmed.

import (
	"bufio"
	"encoding/json"
	"os"
	"os/exec"
	"path/filepath"
	"strconv"
	"strings"
)

type pgResp struct {
	OK         bool     `json:"ok"`
	Error      string   `json:"error"`
	Statements int      `json:"statements"`
	Kinds      []string `json:"kinds"`
	Columns    []string `json:"columns"`
	Strings    []string `json:"strings"`
	Numbers    []string `json:"numbers"`
	Params     int      `json:"params"`
	Confined   bool     `json:"confined"`
}

type Referee struct {
	bin string
}

func newReferee() *Referee {
	p := filepath.Join(verifDir, "bin", "pgconfirm")
	if _, err := os.Stat(p); err != nil {
		return nil
	}
	return &Referee{bin: p}
}

func (r *Referee) ask(sqls []string) []pgResp {
	out := make([]pgResp, len(sqls))
	cmd := exec.Command(r.bin)
	stdin, _ := cmd.StdinPipe()
	stdout, _ := cmd.StdoutPipe()
	if err := cmd.Start(); err != nil {
		return nil
	}
	go func() {
		w := bufio.NewWriter(stdin)
		for _, s := range sqls {
			b, _ := json.Marshal(map[string]string{"sql": s})
			w.Write(b)
			w.WriteByte('\n')
		}
		w.Flush()
		stdin.Close()
	}()
	sc := bufio.NewScanner(stdout)
	sc.Buffer(make([]byte, 1<<20), 1<<24)
	i := 0
	for sc.Scan() && i < len(sqls) {
		json.Unmarshal(sc.Bytes(), &out[i])
		i++
	}
	cmd.Wait()
	if i < len(sqls) {
		return nil
	}
	return out
}

// obsValue extracts the value of an OBS line "OBS name=<quoted>".
func obsValue(lines []string, name string) (string, bool) {
	pre := "OBS " + name + "="
	for _, l := range lines {
		if strings.HasPrefix(l, pre) {
			s, err := strconv.Unquote(l[len(pre):])
			if err != nil {
				return "", false
			}
			return s, true
		}
	}
	return "", false
}

var sqlRefereeIDs = map[string]string{ // assertion id -> which observed SQL text it is about
	"inline-confined": "sql", "inline-columns-are-query-fields": "sql", "inline-strings-are-query-values": "sql",
	"param-confined": "psql", "param-columns-are-query-fields": "psql",
	"value-confined": "sql", "value-param-confined": "psql",
	"ident-confined": "sql", "ident-is-the-name": "sql", "ident-param-confined": "psql", "ident-param-is-the-name": "psql",
}

func inList(s string, list []string) bool {
	for _, x := range list {
		if s == x {
			return true
		}
	}
	return false
}

// seesProblem: does PostgreSQL's parser show a confinement problem for this run?
func (r *Referee) seesProblem(id string, lines []string) (bool, bool) {
	which, ok := sqlRefereeIDs[id]
	if !ok {
		return true, false // not an SQL-syntax claim: the native confirmation stands
	}
	sql, ok := obsValue(lines, which)
	if !ok {
		return true, false
	}
	fieldsS, _ := obsValue(lines, "fields")
	valsS, _ := obsValue(lines, "strvals")
	fields := strings.Split(fieldsS, "\x1f")
	vals := strings.Split(valsS, "\x1f")
	res := r.ask([]string{sql})
	if res == nil {
		return true, false
	}
	p := res[0]
	if !p.OK || p.Statements != 1 || !p.Confined {
		return true, true
	}
	for _, c := range p.Columns {
		if !inList(c, fields) {
			return true, true
		}
	}
	for _, s := range p.Strings {
		if !inList(s, vals) && s != "*" {
			return true, true
		}
	}
	return false, true
}

// modelAgreement compares the harness's SQL model with PostgreSQL's parser on the SQL texts of
// natively replayed paths: (checked, disagreements).
func (r *Referee) modelAgreement(outs [][]string) (int, int, []string) {
	var sqls []string
	var model []bool
	for _, lines := range outs {
		for _, which := range []string{"sql", "psql"} {
			s, ok := obsValue(lines, which)
			m, ok2 := obsValue(lines, which+"model")
			if ok && ok2 {
				sqls = append(sqls, s)
				model = append(model, m == "ok")
			}
		}
	}
	if len(sqls) == 0 {
		return 0, 0, nil
	}
	res := r.ask(sqls)
	if res == nil {
		return 0, 0, nil
	}
	dis := 0
	var ex []string
	for i, p := range res {
		real := p.OK && p.Statements == 1 && p.Confined
		if real != model[i] {
			dis++
			if len(ex) < 3 {
				ex = append(ex, sqls[i])
			}
		}
	}
	return len(sqls), dis, ex
}
