package main

// Loading: the real code from /repo's working tree plus the harness overlay, rebuilt every run.

import (
	"fmt"
	"os"
	"path/filepath"
	"strings"

	"golang.org/x/tools/go/packages"
	"golang.org/x/tools/go/ssa"
	"golang.org/x/tools/go/ssa/ssautil"
)

var repoDir = envOr("VERIF_REPO", "/repo")
var verifDir = envOr("VERIF_DIR", "/verif")

func envOr(k, d string) string {
	if v := os.Getenv(k); v != "" {
		return v
	}
	return d
}

// overlayFiles maps virtual paths inside the repo to the harness sources kept under /verif/harness.
func overlayFiles() (map[string]string, error) {
	m := map[string]string{}
	add := func(srcDir, dstDir string) error {
		ents, err := os.ReadDir(srcDir)
		if err != nil {
			return err
		}
		for _, e := range ents {
			if e.IsDir() || !strings.HasSuffix(e.Name(), ".go") {
				continue
			}
			m[filepath.Join(dstDir, e.Name())] = filepath.Join(srcDir, e.Name())
		}
		return nil
	}
	h := filepath.Join(verifDir, "harness")
	if err := add(filepath.Join(h, "zzverif"), filepath.Join(repoDir, "zzverif")); err != nil {
		return nil, err
	}
	if err := add(filepath.Join(h, "cmd"), filepath.Join(repoDir, "cmd", "zzverifrun")); err != nil {
		return nil, err
	}
	if err := add(filepath.Join(h, "expr"), filepath.Join(repoDir, "pkg", "lucene", "expr")); err != nil {
		return nil, err
	}
	if err := add(filepath.Join(h, "lex"), filepath.Join(repoDir, "internal", "lex")); err != nil && !os.IsNotExist(err) {
		return nil, err
	}
	if err := add(filepath.Join(h, "root"), repoDir); err != nil && !os.IsNotExist(err) {
		return nil, err
	}
	return m, nil
}

func goEnv() []string {
	env := os.Environ()
	env = append(env, "GOWORK=off", "GOFLAGS=", "GOPROXY=off", "GOSUMDB=off", "GOTOOLCHAIN=local")
	return env
}

type Loaded struct {
	prog    *ssa.Program
	harness *ssa.Package
}

func loadProgram() (*Loaded, error) {
	ov, err := overlayFiles()
	if err != nil {
		return nil, err
	}
	overlay := map[string][]byte{}
	for virt, real := range ov {
		b, err := os.ReadFile(real)
		if err != nil {
			return nil, err
		}
		overlay[virt] = b
	}
	cfg := &packages.Config{
		Mode:       packages.NeedName | packages.NeedFiles | packages.NeedCompiledGoFiles | packages.NeedImports | packages.NeedDeps | packages.NeedTypes | packages.NeedTypesSizes | packages.NeedSyntax | packages.NeedTypesInfo | packages.NeedModule,
		Dir:        repoDir,
		Env:        goEnv(),
		BuildFlags: []string{"-tags=verif"},
		Overlay:    overlay,
	}
	pkgs, err := packages.Load(cfg, harnessPkgPath)
	if err != nil {
		return nil, err
	}
	var errs []string
	packages.Visit(pkgs, nil, func(p *packages.Package) {
		for _, e := range p.Errors {
			errs = append(errs, e.Error())
		}
	})
	if len(errs) > 0 {
		return nil, fmt.Errorf("load errors (the harness does not compile against this tree):\n%s", strings.Join(errs, "\n"))
	}
	prog, spkgs := ssautil.AllPackages(pkgs, ssa.InstantiateGenerics|ssa.BareInits)
	prog.Build()
	var h *ssa.Package
	for _, p := range spkgs {
		if p != nil && p.Pkg.Path() == harnessPkgPath {
			h = p
		}
	}
	if h == nil {
		return nil, fmt.Errorf("harness package %s not found", harnessPkgPath)
	}
	return &Loaded{prog: prog, harness: h}, nil
}
