package main

// Models of the library calls that leave the repository. Pure integer/byte code of the standard
// library (unicode/utf8, strconv.Atoi, strconv.special/readFloat) is NOT modelled: it is
// interpreted from its real SSA. What is modelled here is listed in the evidence under "stubs".

import (
	"bytes"
	"fmt"
	"go/types"
	"math"
	"strconv"
	"strings"
	"unicode"
	"unicode/utf8"

	"golang.org/x/tools/go/ssa"
)

var intrinsics map[string]intrinsic

var stubList = []string{
	"strings.{Trim,TrimSpace,ReplaceAll,Join,Contains,ContainsRune,ContainsAny,Split,ToUpper,ToLower,EqualFold,Fields,HasPrefix,HasSuffix,IndexByte,Index,LastIndex,LastIndexByte,Count}, internal/bytealg.{Count,IndexByte,Equal}: byte-sequence intrinsics forking where the result length depends on data; ToUpper exact on ASCII bytes, non-ASCII bytes left unchanged",
	"bytes.TrimSpace: ASCII white space exact, symbolic non-ASCII bytes at the ends cut",
	"fmt.Sprintf: re-implementation of fmt's verb handling for %s %v %d %q %#v %t %.Nf incl. Stringer/GoStringer/error dispatch into interpreted methods and %!verb(type=value) markers",
	"fmt.Errorf: error text formatted by the Sprintf model when Error() is called; strconv error constructors: opaque error values (texts not formatted)",
	"reflect.TypeOf: opaque",
	"strconv.ParseFloat: syntax decided by the real strconv.special/readFloat SSA; value native for concrete text, integer-valued symbolic text exact, other symbolic digits cut",
	"unicode.IsLetter/IsDigit: native for concrete runes, solver-side definition generated from the real range tables for symbolic runes",
	"encoding/json.Marshal/Unmarshal: redirected to the differential-tested pure-Go shim in the harness overlay",
}

func init() {
	intrinsics = map[string]intrinsic{
		"strings.Trim":         stringsTrim,
		"strings.ReplaceAll":   stringsReplaceAll,
		"strings.Join":         stringsJoin,
		"strings.Contains":     stringsContains,
		"strings.ContainsRune": stringsContainsRune,
		"strings.ContainsAny":  stringsContainsAny,
		"strings.Split":        stringsSplit,
		"strings.ToUpper":      stringsToUpper,
		"strings.Fields":       stringsFields,
		"strings.HasPrefix":    stringsHasPrefix,
		"strings.HasSuffix":    stringsHasSuffix,
		"strings.IndexByte":    stringsIndexByte,
		"bytes.TrimSpace":      bytesTrimSpace,
		"strings.TrimSpace":    stringsTrimSpace,
		"strings.Count":        stringsCount,
		"strings.Index":        stringsIndex,
		"strings.LastIndex":    stringsLastIndex,
		"strings.LastIndexByte": stringsLastIndexByte,
		"strings.ToLower":      stringsToLower,
		"strings.EqualFold":    stringsEqualFold,
		"internal/bytealg.CountString":     bytealgCount,
		"internal/bytealg.Count":           bytealgCount,
		"internal/bytealg.IndexByteString": stringsIndexByte,
		"internal/bytealg.IndexByte":       stringsIndexByte,
		"internal/bytealg.Equal":           func(in *Interp, fn *ssa.Function, args []value) value { return in.simpBool(in.strEq(mkStr(sliceBytes(args[0])), mkStr(sliceBytes(args[1])))) },
		"fmt.Sprintf":          fmtSprintf,
		"fmt.Errorf":           lazyErrorf,
		"errors.New":           errorsNew,
		"(*errors.errorString).Error": errorStringError,
		"strconv.syntaxError":  opaqueErrorPtr,
		"strconv.rangeError":   opaqueErrorPtr,
		"strconv.baseError":    opaqueErrorPtr,
		"strconv.bitSizeError": opaqueErrorPtr,
		"strconv.ParseFloat":   strconvParseFloat,
		"strconv.FormatFloat":  strconvFormatFloat,
		"strconv.Itoa":         strconvItoa,
		"(*strings.Builder).WriteByte":   sbWriteByte,
		"(*strings.Builder).WriteString": sbWriteString,
		"(*strings.Builder).Write":       sbWrite,
		"(*strings.Builder).WriteRune":   sbWriteRune,
		"(*strings.Builder).String":      func(in *Interp, fn *ssa.Function, args []value) value { return mkStr(sbBuf(in, args[0])) },
		"(*strings.Builder).Len":         func(in *Interp, fn *ssa.Function, args []value) value { return int64(len(sbBuf(in, args[0]))) },
		"(*strings.Builder).Cap":         func(in *Interp, fn *ssa.Function, args []value) value { return int64(cap(sbBuf(in, args[0]))) },
		"(*strings.Builder).Grow":        func(in *Interp, fn *ssa.Function, args []value) value { return nil },
		"(*strings.Builder).Reset":       func(in *Interp, fn *ssa.Function, args []value) value { sbSet(in, args[0], nil); return nil },
		"strings.NewReplacer":            stringsNewReplacer,
		"(*strings.Replacer).Replace":    stringsReplacerReplace,
		"internal/stringslite.Clone": func(in *Interp, fn *ssa.Function, args []value) value { return args[0] },
		"strings.Clone":              func(in *Interp, fn *ssa.Function, args []value) value { return args[0] },
		"strconv.cloneString":        func(in *Interp, fn *ssa.Function, args []value) value { return args[0] },
		"strconv.AppendInt":    strconvAppendInt,
		"strconv.AppendFloat":  strconvAppendFloat,
		"strconv.FormatInt": func(in *Interp, fn *ssa.Function, args []value) value {
			return strconvItoa(in, fn, args[:1])
		},
		"encoding/json.Marshal": func(in *Interp, fn *ssa.Function, args []value) value {
			return in.callSSA(in.findFunc(modulePath+"/pkg/lucene/expr", "VerifJSONMarshal"), args, nil)
		},
		"encoding/json.Unmarshal": func(in *Interp, fn *ssa.Function, args []value) value {
			return in.callSSA(in.findFunc(modulePath+"/pkg/lucene/expr", "VerifJSONUnmarshal"), args, nil)
		},
		modulePath + "/pkg/lucene/expr.verifNonASCIIKey": func(in *Interp, fn *ssa.Function, args []value) value {
			panic(cut("json-key-with-non-ascii-bytes"))
		},
		"reflect.TypeOf":       func(in *Interp, fn *ssa.Function, args []value) value { return iface{t: fn.Signature.Results().At(0).Type(), v: opaque{"reflect.Type"}} },
		"unicode.IsLetter":     func(in *Interp, fn *ssa.Function, args []value) value { return in.runePred("isLetter", args[0]) },
		"unicode.IsDigit":      func(in *Interp, fn *ssa.Function, args []value) value { return in.runePred("isDigit", args[0]) },
		"unicode/utf8.DecodeRuneInString": utf8DecodeRuneInString,
		"math.IsNaN":           func(in *Interp, fn *ssa.Function, args []value) value { return in.floatPred(args[0], math.IsNaN) },
		"math.IsInf": func(in *Interp, fn *ssa.Function, args []value) value {
			sign := int(in.concInt(args[1], "IsInf sign"))
			return in.floatPred(args[0], func(f float64) bool { return math.IsInf(f, sign) })
		},
		"math.Inf": func(in *Interp, fn *ssa.Function, args []value) value {
			return math.Inf(int(in.concInt(args[0], "Inf sign")))
		},
		"math.Signbit": func(in *Interp, fn *ssa.Function, args []value) value {
			switch x := args[0].(type) {
			case float64:
				return math.Signbit(x)
			case intFloat:
				return in.simpBool(in.tab.Slt(x.t, in.tab.Const(64, 0)))
			}
			panic(engineErr("Signbit of %T", args[0]))
		},
		"math.Abs": func(in *Interp, fn *ssa.Function, args []value) value {
			switch x := args[0].(type) {
			case float64:
				return math.Abs(x)
			case intFloat:
				neg := in.tab.Slt(x.t, in.tab.Const(64, 0))
				return intFloat{in.tab.Ite(neg, in.tab.Neg(x.t), x.t)}
			}
			panic(engineErr("Abs of %T", args[0]))
		},
		"math.Float64bits": func(in *Interp, fn *ssa.Function, args []value) value {
			if f, ok := args[0].(float64); ok {
				return int64(math.Float64bits(f))
			}
			panic(cut("Float64bits of symbolic float"))
		},
		"math.Float64frombits": func(in *Interp, fn *ssa.Function, args []value) value {
			if b, ok := args[0].(int64); ok {
				return math.Float64frombits(uint64(b))
			}
			panic(cut("Float64frombits of symbolic bits"))
		},
		"math.NaN":   func(in *Interp, fn *ssa.Function, args []value) value { return math.NaN() },
		"math.Floor": func(in *Interp, fn *ssa.Function, args []value) value { return in.floatFn(args[0], math.Floor) },
		"math.Trunc": func(in *Interp, fn *ssa.Function, args []value) value { return in.floatFn(args[0], math.Trunc) },
	}
}

func (in *Interp) floatPred(v value, f func(float64) bool) value {
	switch x := v.(type) {
	case float64:
		return f(x)
	case intFloat:
		return false // integer-valued: neither NaN nor Inf
	}
	panic(engineErr("floatPred of %T", v))
}

func (in *Interp) floatFn(v value, f func(float64) float64) value {
	switch x := v.(type) {
	case float64:
		return f(x)
	case intFloat:
		return x
	}
	panic(engineErr("floatFn of %T", v))
}

func (in *Interp) runePred(name string, v value) value {
	switch r := v.(type) {
	case int64:
		return evalApp(name, uint64(uint32(int32(r))))
	case *Term:
		if c, ok := in.tab.cval(r); ok {
			return evalApp(name, c)
		}
		tt := in.tab
		if r.op == OZExt && r.a.w == 8 {
			return in.simpBool(tt.App(name+"8", r.a))
		}
		// a decoded rune is often a constant under the path condition (RuneError)
		if c, ok := in.tryConst(r); ok {
			return evalApp(name, c)
		}
		// split by UTF-8 length class so that the predicate is applied to few bits
		if in.truth(in.simpBool(tt.Ult(r, tt.Const(32, 0x100)))) {
			return in.simpBool(tt.App(name+"8", tt.Extract(r, 7, 0)))
		}
		if in.truth(in.simpBool(tt.Ult(r, tt.Const(32, 0x800)))) {
			return in.simpBool(tt.App(name+"11", tt.Extract(r, 10, 0)))
		}
		if in.truth(in.simpBool(tt.Ult(r, tt.Const(32, 0x10000)))) {
			return in.simpBool(tt.App(name+"16", tt.Extract(r, 15, 0)))
		}
		if in.truth(in.simpBool(tt.Ult(r, tt.Const(32, 0x110000)))) {
			return in.simpBool(tt.App(name+"21", tt.Extract(r, 20, 0)))
		}
		return false
	}
	panic(engineErr("runePred of %T", v))
}

// tryConst asks whether t has a single value under the path condition; if so it is pinned.
func (in *Interp) tryConst(t *Term) (uint64, bool) {
	if c, ok := in.tab.cval(t); ok {
		return c, true
	}
	if in.boot {
		return 0, false
	}
	v := in.model.Eval(t)
	if dv := in.domLook(in.tab.Eq(t, in.tab.Const(t.w, v))); dv.single {
		if dv.decided && dv.value {
			in.tab.pins[t.id] = v
			return v, true
		}
		return 0, false
	}
	verdict, _ := in.check(in.tab.Not(in.tab.Eq(t, in.tab.Const(t.w, v))), false)
	if verdict == Unsat {
		in.tab.pins[t.id] = v
		return v, true
	}
	return 0, false
}

// utf8DecodeRuneInString: one fork on "first byte is ASCII" with the obvious summary (b, 1) on that
// side; every other case runs the real SSA of the function. The summary is itself checked
// against the real SSA by the UTF8Summary lemma harness.
func utf8DecodeRuneInString(in *Interp, fn *ssa.Function, args []value) value {
	if in.noSummaries {
		return in.callBody(fn, args)
	}
	s := args[0]
	if cs, ok := s.(string); ok {
		r, n := utf8.DecodeRuneInString(cs)
		return tuple{int64(r), int64(n)}
	}
	b := strBytes(s)
	if len(b) == 0 {
		return tuple{int64(utf8.RuneError), int64(0)}
	}
	switch b0 := b[0].(type) {
	case int64:
		if b0 < 0x80 {
			return tuple{b0, int64(1)}
		}
	case *Term:
		if in.truth(in.simpBool(in.tab.Ult(b0, in.tab.Const(8, 0x80)))) {
			return tuple{in.simpInt(in.tab.ZExt(b0, 32), true), int64(1)}
		}
	}
	return in.callBody(fn, args)
}

// errorValue builds a non-nil error whose text is opaque.
func (in *Interp) errorValue() value {
	if in.errT == nil {
		p := in.prog.ImportedPackage("errors")
		in.errT = types.NewPointer(p.Type("errorString").Type())
	}
	cell := new(value)
	*cell = structure{&symStr{opaque: true}}
	return iface{t: in.errT, v: cell}
}

func opaqueError(in *Interp, fn *ssa.Function, args []value) value { return in.errorValue() }

// lazyText is the text of an error made by fmt.Errorf, formatted (by the Sprintf model) only when
// Error() is called: most paths never look at it. The arguments are frozen at creation.
type lazyText struct {
	fn   *ssa.Function
	args []value
}

func lazyErrorf(in *Interp, fn *ssa.Function, args []value) value {
	e := in.errorValue().(iface)
	frozen := deepCopy(structure{args[0], args[1]}, map[interface{}]interface{}{}).(structure)
	*(e.v.(*value)) = structure{&lazyText{fn, []value{frozen[0], frozen[1]}}}
	return e
}

func errorsNew(in *Interp, fn *ssa.Function, args []value) value {
	e := in.errorValue().(iface)
	*(e.v.(*value)) = structure{args[0]}
	return e
}

func errorStringError(in *Interp, fn *ssa.Function, args []value) value {
	p, ok := args[0].(*value)
	if !ok || p == nil {
		in.targetPanic("runtime error: invalid memory address or nil pointer dereference")
	}
	st := (*p).(structure)
	if lt, lazy := st[0].(*lazyText); lazy {
		return fmtSprintf(in, lt.fn, lt.args) // not cached: a fork inside must find the same state on re-execution
	}
	return st[0]
}

// strconv's error constructors return *NumError
func opaqueErrorPtr(in *Interp, fn *ssa.Function, args []value) value {
	cell := new(value)
	*cell = structure{"", &symStr{opaque: true}, iface{}}
	return cell
}

// ---------------------------------------------------------------------------------------------
// strings

func byteIs(in *Interp, b value, c byte) value {
	switch x := b.(type) {
	case int64:
		return byte(x) == c
	case *Term:
		return in.simpBool(in.tab.Eq(x, in.tab.Const(8, uint64(c))))
	}
	panic(engineErr("byteIs of %T", b))
}

func byteInSet(in *Interp, b value, set string) value {
	return rtIn(in, nil, []value{b, set})
}

func stringsTrim(in *Interp, fn *ssa.Function, args []value) value {
	cutset := concStr(args[1], "Trim cutset")
	if s, ok := args[0].(string); ok {
		return strings.Trim(s, cutset)
	}
	for i := 0; i < len(cutset); i++ {
		if cutset[i] >= 0x80 {
			panic(cut("Trim-nonascii-cutset"))
		}
	}
	b := strBytes(args[0])
	lo, hi := 0, len(b)
	for lo < hi && in.truth(byteInSet(in, b[lo], cutset)) {
		lo++
	}
	for hi > lo && in.truth(byteInSet(in, b[hi-1], cutset)) {
		hi--
	}
	return mkStr(b[lo:hi])
}

func stringsReplaceAll(in *Interp, fn *ssa.Function, args []value) value {
	if s, ok := args[0].(string); ok {
		if o, ok := args[1].(string); ok {
			if n, ok := args[2].(string); ok {
				return strings.ReplaceAll(s, o, n)
			}
		}
	}
	old := concStr(args[1], "ReplaceAll old")
	if len(old) != 1 || old[0] >= 0x80 {
		panic(cut("ReplaceAll-multibyte-old"))
	}
	nb := strBytes(args[2])
	b := strBytes(args[0])
	out := make([]value, 0, len(b))
	for _, x := range b {
		if in.truth(byteIs(in, x, old[0])) {
			out = append(out, nb...)
		} else {
			out = append(out, x)
		}
	}
	return mkStr(out)
}

func stringsJoin(in *Interp, fn *ssa.Function, args []value) value {
	elems := args[0].([]value)
	var out value = ""
	for i, e := range elems {
		if i > 0 {
			out = strConcat(out, args[1])
		}
		out = strConcat(out, e)
	}
	return out
}

func (in *Interp) containsAt(b, sub []value, i int) *Term {
	res := in.tab.Bool(true)
	for j := range sub {
		res = in.tab.And(res, in.tab.Eq(in.intTerm(b[i+j], 8), in.intTerm(sub[j], 8)))
		if res.isFalse() {
			break
		}
	}
	return res
}

func stringsContains(in *Interp, fn *ssa.Function, args []value) value {
	if s, ok := args[0].(string); ok {
		if o, ok := args[1].(string); ok {
			return strings.Contains(s, o)
		}
	}
	b, sub := strBytes(args[0]), strBytes(args[1])
	res := in.tab.Bool(false)
	for i := 0; i+len(sub) <= len(b); i++ {
		res = in.tab.Or(res, in.containsAt(b, sub, i))
	}
	return in.simpBool(res)
}

func stringsHasPrefix(in *Interp, fn *ssa.Function, args []value) value {
	b, sub := strBytes(args[0]), strBytes(args[1])
	if len(sub) > len(b) {
		return false
	}
	return in.simpBool(in.containsAt(b, sub, 0))
}

func stringsHasSuffix(in *Interp, fn *ssa.Function, args []value) value {
	b, sub := strBytes(args[0]), strBytes(args[1])
	if len(sub) > len(b) {
		return false
	}
	return in.simpBool(in.containsAt(b, sub, len(b)-len(sub)))
}

func stringsIndexByte(in *Interp, fn *ssa.Function, args []value) value {
	b := strBytes(args[0])
	c := args[1]
	for i, x := range b {
		var eq value
		switch cv := c.(type) {
		case int64:
			eq = byteIs(in, x, byte(cv))
		default:
			eq = in.simpBool(in.tab.Eq(in.intTerm(x, 8), in.intTerm(c, 8)))
		}
		if in.truth(eq) {
			return int64(i)
		}
	}
	return int64(-1)
}

func stringsContainsRune(in *Interp, fn *ssa.Function, args []value) value {
	r := in.concInt(args[1], "ContainsRune r")
	if s, ok := args[0].(string); ok {
		return strings.ContainsRune(s, rune(r))
	}
	if r < 0 || r >= 0x80 {
		panic(cut("ContainsRune-nonascii"))
	}
	res := in.tab.Bool(false)
	for _, x := range strBytes(args[0]) {
		res = in.tab.Or(res, in.boolTerm(byteIs(in, x, byte(r))))
	}
	return in.simpBool(res)
}

func stringsContainsAny(in *Interp, fn *ssa.Function, args []value) value {
	chars := concStr(args[1], "ContainsAny chars")
	if s, ok := args[0].(string); ok {
		return strings.ContainsAny(s, chars)
	}
	for i := 0; i < len(chars); i++ {
		if chars[i] >= 0x80 {
			panic(cut("ContainsAny-nonascii"))
		}
	}
	res := in.tab.Bool(false)
	for _, x := range strBytes(args[0]) {
		res = in.tab.Or(res, in.boolTerm(byteInSet(in, x, chars)))
	}
	return in.simpBool(res)
}

func stringsSplit(in *Interp, fn *ssa.Function, args []value) value {
	sep := concStr(args[1], "Split sep")
	if s, ok := args[0].(string); ok {
		parts := strings.Split(s, sep)
		out := make([]value, len(parts))
		for i, p := range parts {
			out[i] = p
		}
		return out
	}
	if len(sep) != 1 || sep[0] >= 0x80 {
		panic(cut("Split-multibyte-sep"))
	}
	b := strBytes(args[0])
	var out []value
	start := 0
	for i, x := range b {
		if in.truth(byteIs(in, x, sep[0])) {
			out = append(out, mkStr(b[start:i]))
			start = i + 1
		}
	}
	out = append(out, mkStr(b[start:]))
	return out
}

func stringsToUpper(in *Interp, fn *ssa.Function, args []value) value {
	if s, ok := args[0].(string); ok {
		return strings.ToUpper(s)
	}
	b := strBytes(args[0])
	out := make([]value, len(b))
	for i, x := range b {
		switch xv := x.(type) {
		case int64:
			if xv >= 'a' && xv <= 'z' {
				out[i] = xv - 32
			} else {
				out[i] = xv
			}
		case *Term:
			isLower := in.tab.And(in.tab.Ule(in.tab.Const(8, 'a'), xv), in.tab.Ule(xv, in.tab.Const(8, 'z')))
			out[i] = in.tab.Ite(isLower, in.tab.Bin(OSub, xv, in.tab.Const(8, 32)), xv)
		}
	}
	return mkStr(out)
}

// sliceBytes: the bytes of a string or []byte argument.
func sliceBytes(v value) []value {
	if b, ok := v.([]value); ok {
		return b
	}
	if v == nil {
		return nil
	}
	return strBytes(v)
}

// countByte: the number of bytes equal to c, as a sum of 0/1 terms.
func (in *Interp) countByte(b []value, c value) value {
	tt := in.tab
	n := int64(0)
	var sum *Term
	for _, x := range b {
		eq := in.simpBool(tt.Eq(in.intTerm(x, 8), in.intTerm(c, 8)))
		switch e := eq.(type) {
		case bool:
			if e {
				n++
			}
		case *Term:
			one := tt.Ite(e, tt.Const(64, 1), tt.Const(64, 0))
			if sum == nil {
				sum = one
			} else {
				sum = tt.Bin(OAdd, sum, one)
			}
		}
	}
	if sum == nil {
		return n
	}
	return in.simpInt(tt.Bin(OAdd, sum, tt.Const(64, uint64(n))), true)
}

func bytealgCount(in *Interp, fn *ssa.Function, args []value) value {
	return in.countByte(sliceBytes(args[0]), args[1])
}

func stringsCount(in *Interp, fn *ssa.Function, args []value) value {
	b, sub := strBytes(args[0]), strBytes(args[1])
	switch len(sub) {
	case 0:
		panic(cut("strings.Count of the empty string")) // counts runes
	case 1:
		return in.countByte(b, sub[0])
	}
	n := int64(0)
	for i := 0; i+len(sub) <= len(b); {
		if in.truth(in.simpBool(in.containsAt(b, sub, i))) {
			n++
			i += len(sub)
		} else {
			i++
		}
	}
	return n
}

func stringsIndex(in *Interp, fn *ssa.Function, args []value) value {
	b, sub := strBytes(args[0]), strBytes(args[1])
	for i := 0; i+len(sub) <= len(b); i++ {
		if in.truth(in.simpBool(in.containsAt(b, sub, i))) {
			return int64(i)
		}
	}
	return int64(-1)
}

func stringsLastIndex(in *Interp, fn *ssa.Function, args []value) value {
	b, sub := strBytes(args[0]), strBytes(args[1])
	for i := len(b) - len(sub); i >= 0; i-- {
		if in.truth(in.simpBool(in.containsAt(b, sub, i))) {
			return int64(i)
		}
	}
	return int64(-1)
}

func stringsLastIndexByte(in *Interp, fn *ssa.Function, args []value) value {
	b := strBytes(args[0])
	for i := len(b) - 1; i >= 0; i-- {
		if in.truth(in.simpBool(in.tab.Eq(in.intTerm(b[i], 8), in.intTerm(args[1], 8)))) {
			return int64(i)
		}
	}
	return int64(-1)
}

func stringsToLower(in *Interp, fn *ssa.Function, args []value) value {
	if s, ok := args[0].(string); ok {
		return strings.ToLower(s)
	}
	b := strBytes(args[0])
	out := make([]value, len(b))
	for i, x := range b {
		switch xv := x.(type) {
		case int64:
			if xv >= 'A' && xv <= 'Z' {
				out[i] = xv + 32
			} else {
				out[i] = xv
			}
		case *Term:
			if !in.truth(in.simpBool(in.tab.Ult(xv, in.tab.Const(8, 0x80)))) {
				panic(cut("ToLower-symbolic-nonascii"))
			}
			isUpper := in.tab.And(in.tab.Ule(in.tab.Const(8, 'A'), xv), in.tab.Ule(xv, in.tab.Const(8, 'Z')))
			out[i] = in.tab.Ite(isUpper, in.tab.Bin(OAdd, xv, in.tab.Const(8, 32)), xv)
		}
	}
	return mkStr(out)
}

// EqualFold: exact on ASCII; a symbolic non-ASCII byte on either side is a cut (simple folding
// of multi-byte runes is not modelled).
func stringsEqualFold(in *Interp, fn *ssa.Function, args []value) value {
	if s, ok := args[0].(string); ok {
		if t, ok := args[1].(string); ok {
			return strings.EqualFold(s, t)
		}
	}
	a, b := strBytes(args[0]), strBytes(args[1])
	for _, side := range [][]value{a, b} {
		for _, x := range side {
			switch xv := x.(type) {
			case int64:
				if xv >= 0x80 {
					panic(cut("EqualFold-nonascii"))
				}
			case *Term:
				if !in.truth(in.simpBool(in.tab.Ult(xv, in.tab.Const(8, 0x80)))) {
					panic(cut("EqualFold-symbolic-nonascii"))
				}
			}
		}
	}
	if len(a) != len(b) {
		return false
	}
	la := strBytes(stringsToLower(in, nil, []value{mkStr(a)}))
	lb := strBytes(stringsToLower(in, nil, []value{mkStr(b)}))
	return in.simpBool(in.strEq(mkStr(la), mkStr(lb)))
}

func stringsTrimSpace(in *Interp, fn *ssa.Function, args []value) value {
	if s, ok := args[0].(string); ok {
		return strings.TrimSpace(s)
	}
	b := strBytes(args[0])
	lo, hi := 0, len(b)
	for lo < hi && in.isASCIISpaceOrCut(b[lo], "TrimSpace") {
		lo++
	}
	for hi > lo && in.isASCIISpaceOrCut(b[hi-1], "TrimSpace") {
		hi--
	}
	return mkStr(b[lo:hi])
}

const asciiSpace = " \t\n\v\f\r"

func (in *Interp) isASCIISpaceOrCut(x value, what string) bool {
	if t, ok := x.(*Term); ok {
		if _, isc := in.tab.cval(t); !isc {
			if !in.truth(in.simpBool(in.tab.Ult(t, in.tab.Const(8, 0x80)))) {
				// multi-byte Unicode spaces start with C2, E1, E2 or E3; any other non-ASCII byte
				// (lead or continuation) cannot begin a space
				if in.truth(byteInSet(in, x, "\xc2\xe1\xe2\xe3")) {
					panic(cut("%s-symbolic-nonascii", what))
				}
				return false
			}
		}
	}
	return in.truth(byteInSet(in, x, asciiSpace))
}

func stringsFields(in *Interp, fn *ssa.Function, args []value) value {
	if s, ok := args[0].(string); ok {
		parts := strings.Fields(s)
		out := make([]value, len(parts))
		for i, p := range parts {
			out[i] = p
		}
		return out
	}
	b := strBytes(args[0])
	var out []value
	start := -1
	for i, x := range b {
		var sp bool
		if c, ok := x.(int64); ok && c >= 0x80 {
			// concrete non-ASCII byte: decide with the native function on the maximal concrete run
			sp = false
			if unicode.IsSpace(rune(c)) && false {
				sp = true
			}
			// a concrete multi-byte space (U+0085, U+00A0, ...) inside a partly symbolic string
			panicIfUnicodeSpace(b, i)
		} else {
			sp = in.isASCIISpaceOrCut(x, "Fields")
		}
		if sp {
			if start >= 0 {
				out = append(out, mkStr(b[start:i]))
				start = -1
			}
		} else if start < 0 {
			start = i
		}
	}
	if start >= 0 {
		out = append(out, mkStr(b[start:]))
	}
	return out
}

func panicIfUnicodeSpace(b []value, i int) {
	// decode the concrete rune starting at i if all its bytes are concrete
	var buf []byte
	for j := i; j < len(b) && j < i+4; j++ {
		c, ok := b[j].(int64)
		if !ok {
			break
		}
		buf = append(buf, byte(c))
	}
	r, _ := decodeRune(buf)
	if unicode.IsSpace(r) {
		panic(cut("Fields-unicode-space"))
	}
}

func decodeRune(b []byte) (rune, int) {
	rs := []rune(string(b))
	if len(rs) == 0 {
		return 0xFFFD, 0
	}
	return rs[0], 0
}

func bytesTrimSpace(in *Interp, fn *ssa.Function, args []value) value {
	b := args[0].([]value)
	allc := true
	for _, x := range b {
		if _, ok := x.(int64); !ok {
			allc = false
			break
		}
	}
	if allc {
		bs := make([]byte, len(b))
		for i, x := range b {
			bs[i] = byte(x.(int64))
		}
		t := bytes.TrimSpace(bs)
		if len(t) == 0 {
			return []value(nil)
		}
		off := len(bs) - len(bytes.TrimLeftFunc(bs, unicode.IsSpace))
		return b[off : off+len(t)]
	}
	lo, hi := 0, len(b)
	for lo < hi && in.isASCIISpaceOrCut(b[lo], "TrimSpace") {
		lo++
	}
	for hi > lo && in.isASCIISpaceOrCut(b[hi-1], "TrimSpace") {
		hi--
	}
	if lo == hi {
		return []value(nil)
	}
	return b[lo:hi]
}

// ---------------------------------------------------------------------------------------------
// strconv

// FormatFloat: native for concrete arguments (a symbolic float is a cut).
func strconvFormatFloat(in *Interp, fn *ssa.Function, args []value) value {
	f, ok := args[0].(float64)
	if !ok {
		panic(cut("FormatFloat of a symbolic float"))
	}
	return strconv.FormatFloat(f, byte(in.concInt(args[1], "FormatFloat fmt")), int(in.concInt(args[2], "FormatFloat prec")), int(in.concInt(args[3], "FormatFloat bitSize")))
}

func strconvItoa(in *Interp, fn *ssa.Function, args []value) value {
	switch x := args[0].(type) {
	case int64:
		return strconv.Itoa(int(x))
	case *Term:
		return in.fmtIntTerm(x, true)
	}
	panic(engineErr("Itoa of %T", args[0]))
}

// strings.Builder: the struct is {addr *Builder; buf []byte}; the methods are modelled on buf.
func sbCell(in *Interp, recv value) *value {
	p, ok := recv.(*value)
	if !ok || p == nil {
		in.targetPanic("runtime error: invalid memory address or nil pointer dereference")
	}
	st := (*p).(structure)
	return &st[1]
}

func sbBuf(in *Interp, recv value) []value {
	b, _ := (*sbCell(in, recv)).([]value)
	return b
}

func sbSet(in *Interp, recv value, b []value) { *sbCell(in, recv) = b }

func sbWriteByte(in *Interp, fn *ssa.Function, args []value) value {
	sbSet(in, args[0], append(sbBuf(in, args[0]), args[1]))
	return iface{}
}

func sbWriteString(in *Interp, fn *ssa.Function, args []value) value {
	b := strBytes(args[1])
	sbSet(in, args[0], append(sbBuf(in, args[0]), b...))
	return tuple{int64(len(b)), iface{}}
}

func sbWrite(in *Interp, fn *ssa.Function, args []value) value {
	b, _ := args[1].([]value)
	sbSet(in, args[0], append(sbBuf(in, args[0]), b...))
	return tuple{int64(len(b)), iface{}}
}

// runeBytes encodes a rune as UTF-8; a symbolic rune forks on its length class.
func (in *Interp) runeBytes(r value) []value {
	switch x := r.(type) {
	case int64:
		return strBytes(string(rune(x)))
	case *Term:
		tt := in.tab
		c := func(v uint64) *Term { return tt.Const(32, v) }
		lt := func(v uint64) bool { return in.truth(in.simpBool(tt.Ult(x, c(v)))) }
		b8 := func(t *Term) value { return in.simpInt(tt.Extract(t, 7, 0), false) }
		or := func(k uint64, t *Term) *Term { return tt.Bin(OBOr, c(k), t) }
		and3f := func(t *Term) *Term { return tt.Bin(OBAnd, t, c(0x3f)) }
		shr := func(n uint64) *Term { return tt.Bin(OLShr, x, c(n)) }
		switch {
		case lt(0x80):
			return []value{b8(x)}
		case lt(0x800):
			return []value{b8(or(0xc0, shr(6))), b8(or(0x80, and3f(x)))}
		case lt(0x10000):
			if !lt(0xd800) && lt(0xe000) {
				return strBytes("\uFFFD")
			}
			return []value{b8(or(0xe0, shr(12))), b8(or(0x80, and3f(shr(6)))), b8(or(0x80, and3f(x)))}
		case lt(0x110000):
			return []value{b8(or(0xf0, shr(18))), b8(or(0x80, and3f(shr(12)))), b8(or(0x80, and3f(shr(6)))), b8(or(0x80, and3f(x)))}
		}
		return strBytes("\uFFFD")
	}
	panic(engineErr("runeBytes of %T", r))
}

func sbWriteRune(in *Interp, fn *ssa.Function, args []value) value {
	b := in.runeBytes(args[1])
	sbSet(in, args[0], append(sbBuf(in, args[0]), b...))
	return tuple{int64(len(b)), iface{}}
}

// replacerData is immutable; the pointer makes values comparable (snapshots share it).
type replacerData struct{ spec *[]string }

func stringsNewReplacer(in *Interp, fn *ssa.Function, args []value) value {
	var pairs []string
	if args[0] != nil {
		for _, v := range args[0].([]value) {
			pairs = append(pairs, concStr(v, "NewReplacer argument"))
		}
	}
	if len(pairs)%2 == 1 {
		in.targetPanic("strings.NewReplacer: odd argument count")
	}
	cell := new(value)
	*cell = replacerData{&pairs}
	return cell
}

// Replace: replacements in the order they appear in the target, old strings tried in argument order.
func stringsReplacerReplace(in *Interp, fn *ssa.Function, args []value) value {
	p, ok := args[0].(*value)
	if !ok || p == nil {
		in.targetPanic("runtime error: invalid memory address or nil pointer dereference")
	}
	rd, ok := (*p).(replacerData)
	if !ok {
		panic(cut("Replacer of unknown construction"))
	}
	pairs := *rd.spec
	for i := 0; i < len(pairs); i += 2 {
		if pairs[i] == "" {
			panic(cut("Replacer with empty old string"))
		}
	}
	b := strBytes(args[1])
	var out []value
	i := 0
	for i < len(b) {
		matched := false
		for k := 0; k < len(pairs); k += 2 {
			old := strBytes(pairs[k])
			if i+len(old) > len(b) {
				continue
			}
			if in.truth(in.simpBool(in.containsAt(b, old, i))) {
				out = append(out, strBytes(pairs[k+1])...)
				i += len(old)
				matched = true
				break
			}
		}
		if !matched {
			out = append(out, b[i])
			i++
		}
	}
	return mkStr(out)
}

func strconvAppendInt(in *Interp, fn *ssa.Function, args []value) value {
	if b := in.concInt(args[2], "AppendInt base"); b != 10 {
		panic(cut("AppendInt base %d", b))
	}
	s := strconvItoa(in, fn, args[1:2])
	dst, _ := args[0].([]value)
	return append(dst, strBytes(s)...)
}

func strconvAppendFloat(in *Interp, fn *ssa.Function, args []value) value {
	f, ok := args[1].(float64)
	if !ok {
		panic(cut("AppendFloat of symbolic float"))
	}
	fm := byte(in.concInt(args[2], "AppendFloat fmt"))
	prec := int(in.concInt(args[3], "AppendFloat prec"))
	bits := int(in.concInt(args[4], "AppendFloat bits"))
	s := strconv.FormatFloat(f, fm, prec, bits)
	dst, _ := args[0].([]value)
	return append(dst, strBytes(s)...)
}

func (in *Interp) findFunc(pkg, name string) *ssa.Function {
	p := in.prog.ImportedPackage(pkg)
	if p == nil {
		panic(engineErr("package %s not loaded", pkg))
	}
	f := p.Func(name)
	if f == nil {
		panic(engineErr("function %s.%s not found", pkg, name))
	}
	return f
}

func strconvParseFloat(in *Interp, fn *ssa.Function, args []value) value {
	if s, ok := args[0].(string); ok {
		f, err := strconv.ParseFloat(s, int(in.concInt(args[1], "bitSize")))
		if err != nil {
			return tuple{f, in.numErrorIface()}
		}
		return tuple{f, iface{}}
	}
	s := args[0]
	n := strLen(s)
	synErr := func() value { return tuple{float64(0), in.numErrorIface()} }
	// inf / nan
	sp := in.callSSA(in.findFunc("strconv", "special"), []value{s}, nil).(tuple)
	if sp[2].(bool) {
		if in.concInt(sp[1], "special n") != int64(n) {
			return synErr()
		}
		return tuple{sp[0], iface{}}
	}
	rf := in.callSSA(in.findFunc("strconv", "readFloat"), []value{s}, nil).(tuple)
	// mantissa uint64, exp int, neg, trunc, hex bool, i int, ok bool
	if !rf[6].(bool) {
		return synErr()
	}
	if in.concInt(rf[5], "readFloat i") != int64(n) {
		return synErr()
	}
	hex, trunc, neg := rf[4].(bool), rf[3].(bool), rf[2].(bool)
	exp, expConc := rf[1].(int64)
	if hex || trunc || !expConc || exp != 0 || n > 16 {
		panic(cut("symbolic-float-digits"))
	}
	var mt *Term
	switch m := rf[0].(type) {
	case int64:
		mt = in.tab.Const(64, uint64(m))
	case *Term:
		mt = m
	}
	if neg {
		if in.truth(in.simpBool(in.tab.Eq(mt, in.tab.Const(64, 0)))) {
			return tuple{math.Copysign(0, -1), iface{}}
		}
		mt = in.tab.Neg(mt)
	}
	return tuple{intFloat{mt}, iface{}}
}

func (in *Interp) numErrorIface() value {
	if in.numErrT == nil {
		p := in.prog.ImportedPackage("strconv")
		in.numErrT = types.NewPointer(p.Type("NumError").Type())
	}
	return iface{t: in.numErrT, v: opaqueErrorPtr(in, nil, nil)}
}

// decDigits recognises the term Atoi builds from digit bytes: ((d0*10+d1)*10+d2) with
// di = zext(bi - '0'); it returns the bytes bi.
func (in *Interp) decDigits(t *Term) ([]*Term, bool) {
	digit := func(d *Term) (*Term, bool) {
		if d.op == OZExt || d.op == OSExt {
			d = d.a
		}
		if d.op == OSub && d.b.isConst() && d.b.k == '0' && d.a.w == 8 {
			return d.a, true
		}
		if d.op == OAdd && d.b.isConst() && d.b.k == 256-'0' && d.a.w == 8 {
			return d.a, true
		}
		return nil, false
	}
	if b, ok := digit(t); ok {
		return []*Term{b}, true
	}
	if t.op == OAdd {
		hi, lo := t.a, t.b
		if hi.op != OMul {
			hi, lo = lo, hi
		}
		if hi.op == OMul {
			x, k := hi.a, hi.b
			if !k.isConst() {
				x, k = k, x
			}
			if k.isConst() && k.k == 10 {
				if b, ok := digit(lo); ok {
					if rest, ok := in.decDigits(x); ok {
						return append(rest, b), true
					}
				}
			}
		}
	}
	return nil, false
}

// fmtIntTerm renders a symbolic 64-bit integer in decimal.
func (in *Interp) fmtIntTerm(t *Term, signed bool) value {
	if c, ok := in.tab.cval(t); ok {
		if signed {
			return strconv.FormatInt(sext(c, t.w), 10)
		}
		return strconv.FormatUint(c, 10)
	}
	if t.w < 64 {
		if signed {
			t = in.tab.SExt(t, 64)
		} else {
			t = in.tab.ZExt(t, 64)
		}
	}
	if t.op == ONeg {
		if ds, ok := in.decDigits(t.a); ok {
			if in.truth(in.simpBool(in.tab.Eq(t.a, in.tab.Const(64, 0)))) {
				return "0"
			}
			return strConcat("-", in.digitsNoLeadingZeros(ds))
		}
	}
	if ds, ok := in.decDigits(t); ok {
		return in.digitsNoLeadingZeros(ds)
	}
	// general case: fork on sign and magnitude, digits by division
	tt := in.tab
	neg := false
	mag := t
	if signed && in.truth(in.simpBool(tt.Slt(t, tt.Const(64, 0)))) {
		neg = true
		mag = tt.Neg(t)
	}
	nd := 1
	lim := uint64(10)
	for nd < 19 && !in.truth(in.simpBool(tt.Ult(mag, tt.Const(64, lim)))) {
		nd++
		lim *= 10
	}
	if nd > 6 {
		panic(cut("format-large-symbolic-int"))
	}
	out := make([]value, nd)
	p := uint64(1)
	for i := nd - 1; i >= 0; i-- {
		d := tt.Bin(OURem, tt.Bin(OUDiv, mag, tt.Const(64, p)), tt.Const(64, 10))
		out[i] = tt.Bin(OAdd, tt.Extract(d, 7, 0), tt.Const(8, '0'))
		p *= 10
	}
	s := mkStr(out)
	if neg {
		return strConcat("-", s)
	}
	return s
}

func (in *Interp) digitsNoLeadingZeros(ds []*Term) value {
	i := 0
	for i < len(ds)-1 && in.truth(in.simpBool(in.tab.Eq(ds[i], in.tab.Const(8, '0')))) {
		i++
	}
	out := make([]value, 0, len(ds)-i)
	for _, d := range ds[i:] {
		out = append(out, d)
	}
	return mkStr(out)
}

// ---------------------------------------------------------------------------------------------
// fmt.Sprintf

// fmtSeg is one piece of a scanned format string: literal bytes or a directive.
type fmtSeg struct {
	lit     []value // literal bytes (constants or 8-bit terms)
	isDir   bool
	sharp   bool
	plus    bool
	prec    int
	verb    byte  // concrete verb
	symVerb value // a verb byte outside the known set (kept symbolic): always a bad verb
	noVerb  bool
}

const knownVerbs = "vsdqtfFeEgGxXcTpUob%"

// scanFormat splits a format string whose bytes may be symbolic (user text that reached a
// format string). A symbolic byte forks on "is it %"; the bytes of a directive fork on the flag,
// digit and verb classes that change fmt's behaviour.
func (in *Interp) scanFormat(f value) []fmtSeg {
	if isOpaqueStr(f) {
		panic(cut("fmt-opaque-format"))
	}
	b := strBytes(f)
	var segs []fmtSeg
	var lit []value
	is := func(x value, c byte) bool { return in.truth(byteIs(in, x, c)) }
	inSet := func(x value, set string) bool { return in.truth(byteInSet(in, x, set)) }
	i := 0
	for i < len(b) {
		if !is(b[i], '%') {
			lit = append(lit, b[i])
			i++
			continue
		}
		if len(lit) > 0 {
			segs = append(segs, fmtSeg{lit: lit})
			lit = nil
		}
		i++
		d := fmtSeg{isDir: true, prec: -1}
		for i < len(b) && inSet(b[i], "#+- 0") {
			switch {
			case is(b[i], '#'):
				d.sharp = true
			case is(b[i], '+'):
				d.plus = true
			default:
				panic(cut("fmt-flag"))
			}
			i++
		}
		if i < len(b) && inSet(b[i], "123456789*[") {
			panic(cut("fmt-width-or-index"))
		}
		if i < len(b) && is(b[i], '.') {
			i++
			d.prec = 0
			for i < len(b) && inSet(b[i], "0123456789") {
				d.prec = d.prec*10 + int(in.concretize(in.tab.ZExt(in.intTerm(b[i], 8), 64), "fmt-precision")-'0')
				i++
			}
			if i < len(b) && inSet(b[i], "*[") {
				panic(cut("fmt-width-or-index"))
			}
		}
		if i >= len(b) {
			d.noVerb = true
			segs = append(segs, d)
			break
		}
		vb := b[i]
		i++
		if c, ok := vb.(int64); ok {
			if c >= 0x80 {
				panic(cut("fmt-nonascii-verb"))
			}
			d.verb = byte(c)
		} else {
			found := false
			for k := 0; k < len(knownVerbs); k++ {
				if is(vb, knownVerbs[k]) {
					d.verb = knownVerbs[k]
					found = true
					break
				}
			}
			if !found {
				if !in.truth(in.simpBool(in.tab.Ult(vb.(*Term), in.tab.Const(8, 0x80)))) {
					panic(cut("fmt-nonascii-verb"))
				}
				d.symVerb = vb
			}
		}
		segs = append(segs, d)
	}
	if len(lit) > 0 {
		segs = append(segs, fmtSeg{lit: lit})
	}
	return segs
}

func fmtSprintf(in *Interp, fn *ssa.Function, args []value) value {
	var vals []value
	if args[1] != nil {
		vals = args[1].([]value)
	}
	var out value = ""
	argi := 0
	for _, sg := range in.scanFormat(args[0]) {
		if !sg.isDir {
			out = strConcat(out, mkStr(sg.lit))
			continue
		}
		if sg.noVerb {
			out = strConcat(out, "%!(NOVERB)")
			continue
		}
		if sg.symVerb == nil && sg.verb == '%' {
			out = strConcat(out, "%")
			continue
		}
		verbStr := value(string([]byte{sg.verb}))
		if sg.symVerb != nil {
			verbStr = mkStr([]value{sg.symVerb})
		}
		if argi >= len(vals) {
			out = strConcat(strConcat(strConcat(out, "%!"), verbStr), "(MISSING)")
			continue
		}
		a := vals[argi].(iface)
		argi++
		p := &printer{in: in, sharp: sg.sharp, plus: sg.plus, prec: sg.prec}
		if sg.symVerb != nil {
			// not a verb fmt knows: %!c(type=value) with the byte itself
			q := &printer{in: in, prec: -1}
			o := strConcat(strConcat("%!", verbStr), "(")
			if a.t == nil {
				o = strConcat(o, "<nil>)")
			} else {
				o = strConcat(strConcat(strConcat(o, typeString(a.t)+"="), q.printArg(a, 'v', 0)), ")")
			}
			out = strConcat(out, o)
			continue
		}
		if sg.verb == 'v' && sg.sharp {
			p.sharp, p.sharpV = false, true
		}
		out = strConcat(out, p.printArg(a, sg.verb, 0))
	}
	if argi < len(vals) {
		// %!(EXTRA type=value, type=value)
		o := value("%!(EXTRA ")
		for k := argi; k < len(vals); k++ {
			a := vals[k].(iface)
			if k > argi {
				o = strConcat(o, ", ")
			}
			if a.t == nil {
				o = strConcat(o, "<nil>")
			} else {
				q := &printer{in: in, prec: -1}
				o = strConcat(strConcat(o, typeString(a.t)+"="), q.printArg(a, 'v', 0))
			}
		}
		out = strConcat(out, strConcat(o, ")"))
	}
	return out
}

type printer struct {
	in     *Interp
	sharp  bool
	sharpV bool
	plus   bool
	prec   int
}

func typeString(t types.Type) string {
	return types.TypeString(t, func(p *types.Package) string { return p.Name() })
}

func (p *printer) badVerb(a iface, verb byte) value {
	var out value = "%!" + string(verb) + "("
	if a.t == nil {
		return strConcat(out, "<nil>)")
	}
	out = strConcat(out, typeString(a.t)+"=")
	q := &printer{in: p.in, prec: -1}
	out = strConcat(out, q.printArg(a, 'v', 0))
	return strConcat(out, ")")
}

func (p *printer) lookupMethod(t types.Type, name string) *ssa.Function {
	ms := p.in.prog.MethodSets.MethodSet(t)
	for i := 0; i < ms.Len(); i++ {
		sel := ms.At(i)
		if sel.Obj().Name() == name && sel.Obj().Exported() {
			sig := sel.Type().(*types.Signature)
			if sig.Params().Len() == 0 && sig.Results().Len() == 1 && isString(sig.Results().At(0).Type()) {
				return p.in.prog.MethodValue(sel)
			}
		}
	}
	return nil
}

// callMethod invokes a String/GoString/Error method the way fmt does, including its handling of
// panics (nil receivers print <nil>, other panics print %!v(PANIC=...)).
func (p *printer) callMethod(f *ssa.Function, a iface, verb byte, mname string) (res value) {
	in := p.in
	depth, stackLen := in.depth, len(in.stack)
	defer func() {
		if r := recover(); r != nil {
			pe, ok := r.(*pathEnd)
			if !ok || pe.kind != endPanic {
				panic(r)
			}
			in.depth, in.stack = depth, in.stack[:stackLen]
			if ptr, isPtr := a.v.(*value); isPtr && ptr == nil {
				res = "<nil>"
				return
			}
			msg := strings.TrimPrefix(pe.msg, "panic: ")
			res = "%!" + string(verb) + "(PANIC=" + mname + " method: " + msg + ")"
		}
	}()
	return in.callSSA(f, []value{a.v}, nil)
}

func (p *printer) handleMethods(a iface, verb byte) (value, bool) {
	if a.t == nil {
		return nil, false
	}
	if _, isOpaque := a.v.(opaque); isOpaque {
		return &symStr{opaque: true}, true
	}
	if p.sharpV {
		if f := p.lookupMethod(a.t, "GoString"); f != nil {
			return p.callMethod(f, a, verb, "GoString"), true
		}
		return nil, false
	}
	switch verb {
	case 'v', 's', 'x', 'X', 'q':
		if f := p.lookupMethod(a.t, "Error"); f != nil {
			s := p.callMethod(f, a, verb, "Error")
			return p.fmtString(s, verb, a), true
		}
		if f := p.lookupMethod(a.t, "String"); f != nil {
			s := p.callMethod(f, a, verb, "String")
			return p.fmtString(s, verb, a), true
		}
	}
	return nil, false
}

func (p *printer) fmtString(s value, verb byte, a iface) value {
	switch verb {
	case 'v':
		if p.sharpV {
			return p.quote(s)
		}
		return s
	case 's':
		if p.prec >= 0 {
			panic(cut("fmt-%%.Ns"))
		}
		return s
	case 'q':
		if p.prec >= 0 || p.sharp {
			panic(cut("fmt-%%q-flags"))
		}
		return p.quote(s)
	}
	if verb == 'x' || verb == 'X' {
		panic(cut("fmt-%%x-string"))
	}
	return p.badVerb(a, verb)
}

func (p *printer) quote(s value) value {
	if isOpaqueStr(s) {
		return s
	}
	if cs, ok := s.(string); ok {
		return strconv.Quote(cs)
	}
	in := p.in
	out := []value{int64('"')}
	for _, b := range strBytes(s) {
		switch x := b.(type) {
		case int64:
			q := strconv.Quote(string([]byte{byte(x)}))
			if x >= 0x80 {
				panic(cut("fmt-quote-nonascii"))
			}
			for k := 1; k < len(q)-1; k++ {
				out = append(out, int64(q[k]))
			}
		case *Term:
			plain := in.tab.And(in.tab.And(in.tab.Ule(in.tab.Const(8, 0x20), x), in.tab.Ule(x, in.tab.Const(8, 0x7e))),
				in.tab.And(in.tab.Not(in.tab.Eq(x, in.tab.Const(8, '"'))), in.tab.Not(in.tab.Eq(x, in.tab.Const(8, '\\')))))
			if in.truth(in.simpBool(plain)) {
				out = append(out, x)
			} else if in.truth(byteIs(in, x, '"')) {
				out = append(out, int64('\\'), int64('"'))
			} else if in.truth(byteIs(in, x, '\\')) {
				out = append(out, int64('\\'), int64('\\'))
			} else if in.truth(in.simpBool(in.tab.Ult(x, in.tab.Const(8, 0x80)))) {
				// control character: \a \b \f \n \r \t \v or \xNN
				done := false
				for _, sp := range []struct{ c, e byte }{{7, 'a'}, {8, 'b'}, {12, 'f'}, {10, 'n'}, {13, 'r'}, {9, 't'}, {11, 'v'}} {
					if in.truth(byteIs(in, x, sp.c)) {
						out = append(out, int64('\\'), int64(sp.e))
						done = true
						break
					}
				}
				if !done {
					hexd := func(n *Term) value {
						return in.tab.Ite(in.tab.Ult(n, in.tab.Const(8, 10)), in.tab.Bin(OAdd, n, in.tab.Const(8, '0')), in.tab.Bin(OAdd, n, in.tab.Const(8, 'a'-10)))
					}
					hi := in.tab.Bin(OLShr, x, in.tab.Const(8, 4))
					lo := in.tab.Bin(OBAnd, x, in.tab.Const(8, 15))
					out = append(out, int64('\\'), int64('x'), hexd(hi), hexd(lo))
				}
			} else {
				panic(cut("fmt-quote-symbolic-nonascii-byte"))
			}
		}
	}
	out = append(out, int64('"'))
	return mkStr(out)
}

func (p *printer) printArg(a iface, verb byte, depth int) value {
	if a.t == nil {
		switch verb {
		case 'T', 'v':
			return "<nil>"
		}
		return p.badVerb(a, verb)
	}
	if verb == 'T' {
		return typeString(a.t)
	}
	if verb == 'p' {
		p.in.noteNondet("%p formatting")
		panic(cut("fmt-%%p"))
	}
	if s, ok := p.handleMethods(a, verb); ok {
		return s
	}
	return p.printValue(a.t, a.v, verb, depth, false)
}

func (p *printer) printValue(t types.Type, v value, verb byte, depth int, viaReflect bool) value {
	in := p.in
	if viaReflect && depth > 0 {
		if _, isI := t.Underlying().(*types.Interface); !isI {
			if s, ok := p.handleMethods(iface{t: t, v: v}, verb); ok {
				return s
			}
		}
	}
	a := iface{t: t, v: v}
	switch u := t.Underlying().(type) {
	case *types.Basic:
		switch {
		case u.Info()&types.IsBoolean != 0:
			if verb != 'v' && verb != 't' {
				return p.badVerb(a, verb)
			}
			if in.truth(v) {
				return "true"
			}
			return "false"
		case u.Info()&types.IsInteger != 0:
			_, signed, _ := intInfo(u)
			switch verb {
			case 'v', 'd':
				if p.sharpV && !signed {
					panic(cut("fmt-%%#v-unsigned"))
				}
				switch x := v.(type) {
				case int64:
					if signed {
						return strconv.FormatInt(x, 10)
					}
					return strconv.FormatUint(uint64(x), 10)
				case *Term:
					return in.fmtIntTerm(x, signed)
				}
			case 'c', 'q', 'U', 'x', 'X', 'o', 'O', 'b':
				if x, ok := v.(int64); ok {
					return fmt.Sprintf("%"+string(verb), x)
				}
				panic(cut("fmt-%%%c-symbolic-int", verb))
			}
			return p.badVerb(a, verb)
		case u.Info()&types.IsFloat != 0:
			return p.fmtFloat(a, v, verb)
		case u.Info()&types.IsString != 0:
			return p.fmtString(v, verb, a)
		}
	case *types.Pointer:
		ptr, ok := v.(*value)
		if !ok {
			panic(cut("fmt-symbolic-pointer"))
		}
		if depth == 0 && ptr != nil {
			switch u.Elem().Underlying().(type) {
			case *types.Struct, *types.Array, *types.Slice, *types.Map:
				return strConcat("&", p.printValue(u.Elem(), *ptr, verb, depth+1, true))
			}
		}
		if ptr == nil && verb == 'v' {
			if p.sharpV {
				return "(" + typeString(t) + ")(nil)"
			}
			return "<nil>"
		}
		in.noteNondet("pointer address formatted")
		panic(cut("fmt-pointer-address"))
	case *types.Struct:
		st := v.(structure)
		var out value = "{"
		if p.sharpV {
			out = typeString(t) + "{"
		}
		for i := range st {
			if i > 0 {
				if p.sharpV {
					out = strConcat(out, ", ")
				} else {
					out = strConcat(out, " ")
				}
			}
			if p.plus || p.sharpV {
				out = strConcat(out, u.Field(i).Name()+":")
			}
			out = strConcat(out, p.printValue(u.Field(i).Type(), st[i], verb, depth+1, u.Field(i).Exported()))
		}
		return strConcat(out, "}")
	case *types.Interface:
		iv := v.(iface)
		if iv.t == nil {
			if p.sharpV {
				return typeString(t) + "(nil)"
			}
			return "<nil>"
		}
		return p.printValue(iv.t, iv.v, verb, depth+1, true)
	case *types.Slice, *types.Array:
		var elems []value
		var et types.Type
		switch uu := u.(type) {
		case *types.Slice:
			elems = v.([]value)
			et = uu.Elem()
			if p.sharpV && elems == nil {
				return typeString(t) + "(nil)"
			}
		case *types.Array:
			elems = v.(array)
			et = uu.Elem()
		}
		if w, _, ok := intInfo(et); ok && w == 8 && (verb == 's' || verb == 'q' || verb == 'x' || verb == 'X') {
			if verb == 's' {
				return mkStr(elems)
			}
			panic(cut("fmt-bytes-%%%c", verb))
		}
		var out value = "["
		closeS := "]"
		sep := " "
		if p.sharpV {
			out = typeString(t) + "{"
			closeS = "}"
			sep = ", "
		}
		for i, e := range elems {
			if i > 0 {
				out = strConcat(out, sep)
			}
			out = strConcat(out, p.printValue(et, e, verb, depth+1, true))
		}
		return strConcat(out, closeS)
	case *types.Map:
		panic(cut("fmt-map"))
	case *types.Signature:
		in.noteNondet("func value formatted")
		panic(cut("fmt-func"))
	}
	panic(cut("fmt-unsupported-kind %v", t))
}

func (p *printer) fmtFloat(a iface, v value, verb byte) value {
	switch verb {
	case 'v', 'g', 'f', 'e', 'G', 'F', 'E':
	default:
		return p.badVerb(a, verb)
	}
	switch x := v.(type) {
	case float64:
		f := "%"
		if p.prec >= 0 {
			f += "." + strconv.Itoa(p.prec)
		}
		if verb == 'v' {
			if p.sharpV {
				return fmt.Sprintf("%#v", x)
			}
			return fmt.Sprintf(f+"v", x)
		}
		return fmt.Sprintf(f+string(verb), x)
	case intFloat:
		ds := p.in.fmtIntTerm(x.t, true)
		switch verb {
		case 'v':
			if strLen(ds) > 21 {
				panic(cut("fmt-float-exponent"))
			}
			return ds
		case 'f', 'F':
			prec := p.prec
			if prec < 0 {
				prec = 6
			}
			if prec == 0 {
				return ds
			}
			return strConcat(ds, "."+strings.Repeat("0", prec))
		}
		panic(cut("fmt-symbolic-float-%%%c", verb))
	}
	panic(engineErr("fmtFloat of %T", v))
}
