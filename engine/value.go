package main

// Value model (after golang.org/x/tools/go/ssa/interp, BSD licence): boxed values with concrete
// shape and symbolic scalars.
//
//   bool | *Term(Bool)            booleans
//   int64 | *Term(BV w)           every integer kind; concrete ones are kept normalised
//                                 (sign- or zero-extended from the static type's width)
//   float64 | intFloat            floats: concrete, or known to equal a (64-bit signed) term
//   string | *symStr              strings: all-concrete, or concrete length with byte terms
//   structure, array, []value     aggregates (slices are Go slices of cells: aliasing is real)
//   *value | *symPtr              pointers to cells / pointer selected by a symbolic index
//   *hmap                         maps
//   iface                         interfaces (dynamic type is always concrete)
//   *closure, *ssa.Function, *ssa.Builtin
//   tuple, *mapIter, opaque

import (
	"fmt"
	"go/types"
	"math"
	"strconv"
	"strings"

	"golang.org/x/tools/go/ssa"
)

type value interface{}

type tuple []value
type array []value
type structure []value

type iface struct {
	t types.Type
	v value
}

type closure struct {
	fn  *ssa.Function
	env []value
}

type intFloat struct{ t *Term } // float64 whose value equals the signed 64-bit term t exactly

// symStr is a string of concrete length whose bytes are int64 constants or 8-bit terms.
// opaque strings stand for text nobody may look at (error messages).
type symStr struct {
	b      []value
	opaque bool
}

type symPtr struct {
	cells []*value
	idx   *Term // 64-bit
	t     types.Type
}

type opaque struct{ kind string }

type hentry struct {
	k, v value
}

type hmap struct {
	entries []hentry
	index   map[interface{}]int // concrete keys only
	nsym    int                 // entries whose key is a symbolic string (found by comparison, see Interp.mapFind)
	kt      types.Type
}

type mapIter struct {
	m *hmap
	i int
}

func newHmap(kt types.Type) *hmap { return &hmap{index: map[interface{}]int{}, kt: kt} }

func hkey(k value) interface{} {
	switch k := k.(type) {
	case int64, string, bool, float64:
		return k
	case iface:
		ts := ""
		if k.t != nil {
			ts = k.t.String()
		}
		return [2]interface{}{ts, hkey(k.v)}
	case *value:
		return k
	case structure:
		var sb strings.Builder
		for _, f := range k {
			fmt.Fprintf(&sb, "%v|", hkey(f))
		}
		return sb.String()
	case array:
		var sb strings.Builder
		for _, f := range k {
			fmt.Fprintf(&sb, "%v,", hkey(f))
		}
		return sb.String()
	}
	panic(engineErr("unhashable or symbolic map key %T", k))
}

func (m *hmap) lookup(k value) (value, bool) {
	if m == nil {
		return nil, false
	}
	i, ok := m.index[hkey(k)]
	if !ok {
		return nil, false
	}
	return m.entries[i].v, true
}

func (m *hmap) insert(k, v value) {
	hk := hkey(k)
	if i, ok := m.index[hk]; ok {
		m.entries[i].v = v
		return
	}
	m.index[hk] = len(m.entries)
	m.entries = append(m.entries, hentry{k, v})
}

func (m *hmap) remove(k value) {
	if m == nil {
		return
	}
	hk := hkey(k)
	i, ok := m.index[hk]
	if !ok {
		return
	}
	m.removeAt(i)
}

func (m *hmap) removeAt(i int) {
	if _, sym := m.entries[i].k.(*symStr); sym {
		m.nsym--
	} else {
		delete(m.index, hkey(m.entries[i].k))
	}
	m.entries = append(m.entries[:i:i], m.entries[i+1:]...)
	for j := i; j < len(m.entries); j++ {
		if _, sym := m.entries[j].k.(*symStr); !sym {
			m.index[hkey(m.entries[j].k)] = j
		}
	}
}

func (m *hmap) length() int {
	if m == nil {
		return 0
	}
	return len(m.entries)
}

// ---------------------------------------------------------------------------------------------
// engine-level control transfers

type engineError struct{ msg string }

func engineErr(f string, a ...interface{}) *engineError { return &engineError{fmt.Sprintf(f, a...)} }

type endKind int

const (
	endReturn endKind = iota
	endPanic          // the program under test panicked
	endCut            // unsupported operation on symbolic data: inputs on this path are outside the claim
	endAssumeFail     // rtAssume killed the path
	endBudget         // instruction budget exhausted (unwinding failure)
	endInconclusive   // solver said unknown on a query the path depends on
	endEngine         // engine defect (treated like a cut, reported separately)
)

type pathEnd struct {
	kind endKind
	msg  string
	site string
}

func cut(f string, a ...interface{}) *pathEnd { return &pathEnd{kind: endCut, msg: fmt.Sprintf(f, a...)} }

// ---------------------------------------------------------------------------------------------
// type helpers

func deref(t types.Type) types.Type {
	if p, ok := t.Underlying().(*types.Pointer); ok {
		return p.Elem()
	}
	panic(engineErr("deref of non-pointer %v", t))
}

// intInfo returns width and signedness for integer-like basic types.
func intInfo(t types.Type) (w int, signed bool, ok bool) {
	b, isb := t.Underlying().(*types.Basic)
	if !isb {
		return 0, false, false
	}
	switch b.Kind() {
	case types.Int, types.Int64, types.UntypedInt, types.UntypedRune:
		return 64, true, true
	case types.Int8:
		return 8, true, true
	case types.Int16:
		return 16, true, true
	case types.Int32:
		return 32, true, true
	case types.Uint, types.Uint64, types.Uintptr:
		return 64, false, true
	case types.Uint8:
		return 8, false, true
	case types.Uint16:
		return 16, false, true
	case types.Uint32:
		return 32, false, true
	}
	return 0, false, false
}

func isString(t types.Type) bool {
	b, ok := t.Underlying().(*types.Basic)
	return ok && b.Info()&types.IsString != 0
}

func isFloat(t types.Type) bool {
	b, ok := t.Underlying().(*types.Basic)
	return ok && b.Info()&types.IsFloat != 0
}

func isBoolT(t types.Type) bool {
	b, ok := t.Underlying().(*types.Basic)
	return ok && b.Info()&types.IsBoolean != 0
}

func norm(v int64, w int, signed bool) int64 {
	if w >= 64 {
		return v
	}
	if signed {
		return sext(uint64(v), w)
	}
	return int64(uint64(v) & mask(w))
}

func zero(t types.Type) value {
	switch t := t.(type) {
	case *types.Basic:
		if t.Kind() == types.UntypedNil {
			panic(engineErr("untyped nil has no zero value"))
		}
		switch {
		case t.Info()&types.IsBoolean != 0:
			return false
		case t.Info()&types.IsInteger != 0:
			return int64(0)
		case t.Info()&types.IsFloat != 0:
			return float64(0)
		case t.Info()&types.IsString != 0:
			return ""
		case t.Kind() == types.UnsafePointer:
			return (*value)(nil)
		}
		panic(engineErr("zero of basic %v", t))
	case *types.Pointer:
		return (*value)(nil)
	case *types.Array:
		a := make(array, t.Len())
		for i := range a {
			a[i] = zero(t.Elem())
		}
		return a
	case *types.Named:
		return zero(t.Underlying())
	case *types.Alias:
		return zero(types.Unalias(t))
	case *types.Interface:
		return iface{}
	case *types.Slice:
		return []value(nil)
	case *types.Struct:
		s := make(structure, t.NumFields())
		for i := range s {
			s[i] = zero(t.Field(i).Type())
		}
		return s
	case *types.Tuple:
		if t.Len() == 1 {
			return zero(t.At(0).Type())
		}
		s := make(tuple, t.Len())
		for i := range s {
			s[i] = zero(t.At(i).Type())
		}
		return s
	case *types.Chan:
		return opaque{"chan"}
	case *types.Map:
		return (*hmap)(nil)
	case *types.Signature:
		return (*ssa.Function)(nil)
	}
	panic(engineErr("zero of %T %v", t, t))
}

// copyVal copies aggregates so that loads and stores have value semantics.
func copyVal(v value) value {
	switch v := v.(type) {
	case structure:
		c := make(structure, len(v))
		for i, f := range v {
			c[i] = copyVal(f)
		}
		return c
	case array:
		c := make(array, len(v))
		for i, f := range v {
			c[i] = copyVal(f)
		}
		return c
	}
	return v
}

// ---------------------------------------------------------------------------------------------
// strings

func strLen(v value) int {
	switch s := v.(type) {
	case string:
		return len(s)
	case *symStr:
		if s.opaque {
			panic(cut("opaque-string-inspected"))
		}
		return len(s.b)
	}
	panic(engineErr("strLen of %T", v))
}

// strBytes returns the bytes of a string value as cells (int64 or *Term of width 8).
func strBytes(v value) []value {
	switch s := v.(type) {
	case string:
		out := make([]value, len(s))
		for i := 0; i < len(s); i++ {
			out[i] = int64(s[i])
		}
		return out
	case *symStr:
		if s.opaque {
			panic(cut("opaque-string-inspected"))
		}
		return s.b
	}
	panic(engineErr("strBytes of %T", v))
}

// mkStr normalises a byte sequence into a string value.
func mkStr(b []value) value {
	allc := true
	for _, x := range b {
		if _, ok := x.(int64); !ok {
			if t, ok := x.(*Term); ok && t.isConst() {
				continue
			}
			allc = false
			break
		}
	}
	if allc {
		bs := make([]byte, len(b))
		for i, x := range b {
			switch x := x.(type) {
			case int64:
				bs[i] = byte(x)
			case *Term:
				bs[i] = byte(x.k)
			}
		}
		return string(bs)
	}
	cp := make([]value, len(b))
	copy(cp, b)
	return &symStr{b: cp}
}

func isOpaqueStr(v value) bool {
	s, ok := v.(*symStr)
	return ok && s.opaque
}

func strConcat(a, b value) value {
	if isOpaqueStr(a) || isOpaqueStr(b) {
		return &symStr{opaque: true}
	}
	if sa, ok := a.(string); ok {
		if sb, ok := b.(string); ok {
			return sa + sb
		}
	}
	ba, bb := strBytes(a), strBytes(b)
	out := make([]value, 0, len(ba)+len(bb))
	out = append(out, ba...)
	out = append(out, bb...)
	return mkStr(out)
}

// ---------------------------------------------------------------------------------------------
// debugging output

func showValue(v value) string {
	switch v := v.(type) {
	case nil:
		return "<nil-value>"
	case *Term:
		return fmt.Sprintf("sym#%d/%d", v.id, v.w)
	case int64:
		return strconv.FormatInt(v, 10)
	case string:
		return strconv.Quote(v)
	case *symStr:
		if v.opaque {
			return "<opaque string>"
		}
		var sb strings.Builder
		sb.WriteString("s\"")
		for _, b := range v.b {
			if c, ok := b.(int64); ok {
				sb.WriteByte(byte(c))
			} else {
				sb.WriteString("?")
			}
		}
		sb.WriteString("\"")
		return sb.String()
	case float64:
		if math.IsNaN(v) {
			return "NaN"
		}
		return strconv.FormatFloat(v, 'g', -1, 64)
	case iface:
		if v.t == nil {
			return "nil-iface"
		}
		return fmt.Sprintf("iface(%v, %s)", v.t, showValue(v.v))
	case structure:
		parts := []string{}
		for _, f := range v {
			parts = append(parts, showValue(f))
		}
		return "{" + strings.Join(parts, " ") + "}"
	case []value:
		parts := []string{}
		for _, f := range v {
			parts = append(parts, showValue(f))
		}
		return "[" + strings.Join(parts, " ") + "]"
	case *value:
		if v == nil {
			return "nil-ptr"
		}
		return "&" + showValue(*v)
	}
	return fmt.Sprintf("%T", v)
}
