package main

// The check driver: vcheck run <property> [--tier quick|thorough]

import (
	"crypto/sha1"
	"encoding/json"
	"fmt"
	"os"
	"path/filepath"
	"runtime"
	"sort"
	"strconv"
	"strings"
	"time"
)

type hrun struct {
	Harness    string
	Params     map[string]int64
	Panics     bool     // a panic of the code under test is a violation of this property
	MaxPaths   int64    // 0 = exhaustive; otherwise the run is reported as truncated when hit
	Seconds    int      // wall clock cap for this harness (0 = none); hitting it is reported
	Only       []string // when set, only these assertion ids belong to the property
	Ignore     []string // assertion ids of this harness that belong to other properties
	InfoOnly   []string // assertion ids that are informational (never a violation)
	FreeOthers bool     // assertions outside Only are checked and counted but not assumed afterwards, so that a failing
	// assertion of another property cannot end a path before this property's assertions are reached
}

type propCfg struct {
	Quick    []hrun
	Thorough []hrun
	Bounds   string
	Outside  string
	Funcs    []string
}

func P(kv ...interface{}) map[string]int64 {
	m := map[string]int64{}
	for i := 0; i+1 < len(kv); i += 2 {
		m[kv[i].(string)] = int64(kv[i+1].(int))
	}
	return m
}

type knownFinding struct {
	Property    string   `json:"property"`
	Harness     string   `json:"harness,omitempty"`
	Assertion   string   `json:"assertion"`
	Site        string   `json:"site,omitempty"`
	Tags        []string `json:"tags,omitempty"`
	Witness     string   `json:"witness_input"`
	Description string   `json:"description"`
	Status      string   `json:"status"` // "known" or "fixed: <commit>"
}

func loadKnown() []knownFinding {
	var k []knownFinding
	b, err := os.ReadFile(filepath.Join(verifDir, "known_findings.json"))
	if err != nil {
		return nil
	}
	json.Unmarshal(b, &k)
	return k
}

func matchKnown(known []knownFinding, prop string, c *Candidate) *knownFinding {
	for i := range known {
		k := &known[i]
		if k.Status != "known" || k.Property != prop || k.Assertion != c.Assertion {
			continue
		}
		if k.Harness != "" && k.Harness != c.Harness {
			continue
		}
		if k.Site != "" && k.Site != c.Site {
			continue
		}
		kt := append([]string{}, k.Tags...)
		sort.Strings(kt)
		if strings.Join(kt, ",") != strings.Join(c.Tags, ",") {
			continue
		}
		return k
	}
	return nil
}

type harnessEvidence struct {
	Harness           string                 `json:"harness"`
	Params            map[string]int64       `json:"params"`
	Paths             int64                  `json:"paths"`
	Decisions         int64                  `json:"decisions"`
	Instructions      int64                  `json:"ssa_instructions"`
	Queries           int64                  `json:"queries"`
	Sat               int64                  `json:"sat"`
	UnsatPruned       int64                  `json:"unsat_pruned"`
	Unknown           int64                  `json:"unknown"`
	SolverTime        float64                `json:"solver_time_s"`
	Wall              float64                `json:"wall_s"`
	Ends              map[string]int64       `json:"path_ends"`
	Cuts              map[string]int64       `json:"cuts,omitempty"`
	EngineErrors      map[string]int64       `json:"engine_errors,omitempty"`
	Reach             map[string]int64       `json:"reach"`
	Assertions        map[string]*assertStat `json:"assertions"`
	AssumeKills       int64                  `json:"assume_kills"`
	Truncated         bool                   `json:"truncated"`
	TracesChecked     int                    `json:"traces_validated"`
	CutReplayed       int                    `json:"cut_paths_replayed_natively"`
	TraceMismatch     int                    `json:"trace_mismatches"`
	Unconfirmed       int                    `json:"unconfirmed_candidates"`
	Confirmed         int                    `json:"confirmed_violations"`
	Nondet            map[string]int64       `json:"nondeterminism_sources,omitempty"`
	SolverCross       map[string]string      `json:"solver_crosscheck,omitempty"`
	ModelVsPG         int                    `json:"sql_model_vs_pg_query_checked"`
	ModelVsPGDisagree int                    `json:"sql_model_vs_pg_query_disagreements"`
	DomDecided        int64                  `json:"byte_domain_decisions"`
	DomRechecked      int64                  `json:"byte_domain_decisions_rechecked_by_z3"`
	DomForks          int64                  `json:"byte_domain_forks"`
	FunctionsRun      []string               `json:"functions_encoded"`
}

func cmdRun(args []string) int {
	if len(args) < 1 {
		fmt.Fprintln(os.Stderr, "usage: vcheck run <property> [--tier quick|thorough]")
		return 2
	}
	prop := args[0]
	tier := "quick"
	for i := 1; i < len(args); i++ {
		if args[i] == "--tier" && i+1 < len(args) {
			tier = args[i+1]
			i++
		}
	}
	if t := os.Getenv("VERIF_TIER"); t == "quick" || t == "thorough" {
		tier = t
	}
	seed := int64(0)
	if s := os.Getenv("VERIF_SEED"); s != "" {
		seed, _ = strconv.ParseInt(s, 10, 64)
	}
	cfg, ok := props[prop]
	if !ok {
		fmt.Fprintln(os.Stderr, "no check for property", prop)
		return 2
	}
	runs := cfg.Quick
	if tier == "thorough" {
		runs = cfg.Thorough
	}
	t0 := time.Now()
	evPath := filepath.Join(verifDir, "evidence", prop+".json")
	os.Remove(evPath)

	ld, err := loadProgram()
	if err != nil {
		fmt.Printf("NOTE: property=%s not checked: %v\n", prop, err)
		return 0
	}
	twin, err := buildTwin()
	if err != nil {
		fmt.Printf("NOTE: property=%s not checked: %v\n", prop, err)
		return 0
	}
	defer twin.Close()
	known := loadKnown()
	referee := newReferee()

	var hes []harnessEvidence
	var samples []string
	var totalPaths, totalDecs, totalTraces int64
	violations := 0
	crossDone := false
	knownHit := map[string]bool{}
	exit := 0
	for _, hr := range runs {
		entry := ld.harness.Func("H_" + hr.Harness)
		if entry == nil {
			fmt.Printf("NOTE: harness %s missing\n", hr.Harness)
			continue
		}
		ex := NewExplorer(ld.prog, entry, hr.Harness, hr.Params, runtime.NumCPU())
		ex.maxPaths = hr.MaxPaths
		if hr.FreeOthers && len(hr.Only) > 0 {
			ex.assumeOnly = map[string]bool{}
			for _, id := range hr.Only {
				ex.assumeOnly[id] = true
			}
		}
		if hr.Seconds > 0 {
			ex.deadline = time.Now().Add(time.Duration(hr.Seconds) * time.Second)
		}
		ex.seed = seed
		th := time.Now()
		if err := ex.Run(); err != nil {
			fmt.Printf("NOTE: harness %s: %v\n", hr.Harness, err)
			continue
		}
		he := harnessEvidence{Harness: hr.Harness, Params: hr.Params, Paths: ex.Paths, Decisions: ex.Decisions, Instructions: ex.Steps,
			Queries: ex.Queries, Sat: ex.SatN, UnsatPruned: ex.UnsatN, Unknown: ex.UnkN, SolverTime: ex.SolverTime.Seconds(),
			Ends: ex.Ends, Cuts: ex.Cuts, EngineErrors: ex.EngineErrs, Reach: ex.Reach, Assertions: ex.Asserts, AssumeKills: ex.AssumeKills,
			Truncated: ex.Truncated, Nondet: ex.Nondet, FunctionsRun: coveredFunctions(ex),
			DomDecided: ex.domDecided.Load(), DomRechecked: ex.domRechecked.Load(), DomForks: ex.domForks.Load()}

		ignore := map[string]bool{}
		for _, id := range hr.Ignore {
			ignore[id] = true
		}
		if len(hr.Only) > 0 {
			only := map[string]bool{}
			for _, id := range hr.Only {
				only[id] = true
			}
			for _, cs := range ex.Cands {
				if !only[cs[0].Assertion] {
					ignore[cs[0].Assertion] = true
				}
			}
		}
		info := map[string]bool{}
		for _, id := range hr.InfoOnly {
			info[id] = true
		}

		// trace validation: sampled symbolic paths replayed natively
		var traceOuts [][]string
		if len(ex.TraceVecs) > 0 {
			reqs := make([]twinReq, len(ex.TraceVecs))
			for i, v := range ex.TraceVecs {
				reqs[i] = twinReq{Harness: hr.Harness, Params: hr.Params, Vals: v}
			}
			outs, err := twin.RunBatch(reqs)
			if err == nil {
				traceOuts = outs
				if referee != nil {
					n, dis, ex := referee.modelAgreement(outs)
					he.ModelVsPG, he.ModelVsPGDisagree = n, dis
					for _, e := range ex {
						fmt.Printf("NOTE: SQL model and pg_query disagree on %q\n", e)
					}
				}
				for i, lines := range outs {
					he.TracesChecked++
					want := ex.TraceObs[i]
					var got []string
					for _, l := range lines {
						switch {
						case strings.HasPrefix(l, "OBS "):
							got = append(got, l[4:])
						case l == "END":
							got = append(got, "END")
						case strings.HasPrefix(l, "PANIC"):
							got = append(got, "PANIC")
						case l == "ASSUME-FAIL":
							got = append(got, "ASSUME-FAIL")
						}
					}
					if strings.Join(got, "\n") != strings.Join(want, "\n") {
						he.TraceMismatch++
						if he.TraceMismatch <= 3 {
							fmt.Printf("NOTE: trace mismatch in %s on %v:\n  engine: %v\n  native: %v\n", hr.Harness, ex.TraceVecs[i], want, got)
						}
					}
				}
			}
		}

		// an assertion of this property that fails in a native run is a real failure of the
		// property's observable on a solver-found input, whatever the engine thought of it
		// (the engine or a library model may lag behind an edited tree)
		harvested := map[string]bool{}
		harvest := func(vec []int64, lines []string) {
			for _, l := range lines {
				if strings.HasPrefix(l, "PANIC") && hr.Panics && !ignore["no-panic"] {
					site := ""
					if k := strings.LastIndex(l, " @ "); k >= 0 {
						site = l[k+3:]
					}
					c := &Candidate{Harness: hr.Harness, Assertion: "no-panic", Site: site, Vals: vec, Text: fmt.Sprintf("native replay vector %v", vec), Msg: l}
					if _, have := ex.Cands[c.key()]; !have && !harvested[c.key()] {
						harvested[c.key()] = true
						ex.Cands[c.key()] = []*Candidate{c}
					}
					continue
				}
				if !strings.HasPrefix(l, "ASSERT-FAIL ") {
					continue
				}
				id := strings.TrimPrefix(l, "ASSERT-FAIL ")
				if ignore[id] || info[id] {
					continue
				}
				var tags []string
				for _, t := range lines {
					if strings.HasPrefix(t, "TAG ") {
						tg := strings.TrimPrefix(t, "TAG ")
						dup := false
						for _, x := range tags {
							if x == tg {
								dup = true
							}
						}
						if !dup {
							tags = append(tags, tg)
						}
					}
				}
				sort.Strings(tags)
				c := &Candidate{Harness: hr.Harness, Assertion: id, Tags: tags, Vals: vec, Text: fmt.Sprintf("native replay vector %v", vec)}
				if _, have := ex.Cands[c.key()]; have || harvested[c.key()] {
					continue
				}
				harvested[c.key()] = true
				ex.Cands[c.key()] = []*Candidate{c}
			}
		}
		for i, lines := range traceOuts {
			harvest(ex.TraceVecs[i], lines)
		}
		// paths the engine had to cut are still replayed natively on one concrete representative
		// each: the native run cannot widen the claim, but a failing assertion there is real
		if len(ex.CutVecs) > 0 {
			reqs := make([]twinReq, len(ex.CutVecs))
			for i, v := range ex.CutVecs {
				reqs[i] = twinReq{Harness: hr.Harness, Params: hr.Params, Vals: v}
			}
			if outs, err := twin.RunBatch(reqs); err == nil {
				he.CutReplayed = len(outs)
				for i, lines := range outs {
					harvest(ex.CutVecs[i], lines)
				}
			}
		}

		// confirmation of candidates
		keys := []string{}
		for k := range ex.Cands {
			keys = append(keys, k)
		}
		sort.Strings(keys)
		for ki := 0; ki < len(keys); ki++ {
			k := keys[ki]
			cs := ex.Cands[k]
			id := cs[0].Assertion
			if ignore[id] || (id == "no-panic" && !hr.Panics) {
				continue
			}
			reqs := make([]twinReq, len(cs))
			for i, c := range cs {
				reqs[i] = twinReq{Harness: hr.Harness, Params: hr.Params, Vals: c.Vals}
			}
			limit := 120
			if id == "terminates-within-budget" {
				limit = 20
				reqs = reqs[:1]
			}
			outs, err := twin.RunBatchT(reqs, limit)
			if err != nil {
				continue
			}
			// other assertions of the property that fail natively on these vectors are queued too
			before := len(harvested)
			for i, lines := range outs {
				harvest(reqs[i].Vals, lines)
			}
			if len(harvested) > before {
				for hk := range harvested {
					found := false
					for _, kk := range keys {
						if kk == hk {
							found = true
						}
					}
					if !found {
						keys = append(keys, hk)
					}
				}
			}
			var confirmed *Candidate
			var nativeOut []string
			for i, lines := range outs {
				ok := false
				switch id {
				case "no-panic":
					ok = hasLine(lines, "PANIC") || hasLine(lines, "CRASH")
				case "terminates-within-budget":
					ok = hasLine(lines, "CRASH") // killed by the time limit
				case "globals-unchanged", "no-nondeterminism-source":
					// a write to shared state / a nondeterminism source is confirmed when the
					// race detector fires on the concurrent probe, or when repeated native runs
					// of the same input disagree
					if text, has := obsValue(lines, "text"); has {
						if raced, err := twin.raceProbe(text); err == nil && raced {
							ok = true
						}
					}
					if !ok {
						rep := make([]twinReq, 12)
						for j := range rep {
							rep[j] = reqs[i]
						}
						if again, err := twin.RunBatch(rep); err == nil {
							for _, l2 := range again {
								if strings.Join(l2, "\n") != strings.Join(lines, "\n") {
									ok = true
								}
							}
						}
					}
				default:
					ok = hasLine(lines, "ASSERT-FAIL "+id)
				}
				if ok && referee != nil {
					if problem, asked := referee.seesProblem(id, lines); asked && !problem {
						ok = false // PostgreSQL's parser does not see it: the SQL model is wrong
					}
				}
				if ok {
					confirmed = cs[i]
					nativeOut = lines
					break
				}
			}
			if confirmed == nil {
				he.Unconfirmed++
				fmt.Printf("NOTE: unconfirmed candidate %s/%s on %s (engine or oracle-model defect; not a violation)\n", hr.Harness, k, cs[0].Text)
				continue
			}
			if info[id] {
				continue
			}
			he.Confirmed++
			if kf := matchKnown(known, prop, confirmed); kf != nil {
				kk := prop + "|" + kf.Assertion + "|" + kf.Site + "|" + strings.Join(kf.Tags, ",")
				if !knownHit[kk] {
					knownHit[kk] = true
					fmt.Printf("KNOWN-FINDING: property=%s %s (witness %s; this run: %s)\n", prop, kf.Description, kf.Witness, confirmed.Text)
				}
				continue
			}
			violations++
			rp := writeReplay(prop, hr, confirmed, nativeOut)
			fmt.Printf("VIOLATION property=%s replay=%s\n", prop, rp)
			fmt.Printf("  harness=%s assertion=%s site=%s tags=%v input: %s\n", hr.Harness, id, confirmed.Site, confirmed.Tags, confirmed.Text)
			exit = 1
		}
		// thorough tier: the same harness again with every branch routed through the solver
		// (byte domains off), once per alternative back end; path counts and assertion counters
		// must agree with the main run
		if tier == "thorough" && ex.Paths >= 100 && ex.Paths <= 6000 && !crossDone && os.Getenv("VERIF_CROSSCHECK") != "0" {
			crossDone = true
			he.SolverCross = map[string]string{}
			saved := domainMode
			domainMode = "off"
			for _, sk := range []string{"z3", "cvc5"} {
				ex2 := NewExplorer(ld.prog, entry, hr.Harness, hr.Params, runtime.NumCPU())
				ex2.solverK = sk
				ex2.traceEvery = 0
				if err := ex2.Run(); err != nil {
					he.SolverCross[sk] = "not run: " + err.Error()
					continue
				}
				same := ex2.Paths == ex.Paths && ex2.UnkN == 0
				for id, a := range ex.Asserts {
					b := ex2.Asserts[id]
					if b == nil || a.Checked != b.Checked || a.Violated != b.Violated {
						same = false
					}
				}
				if same {
					he.SolverCross[sk] = fmt.Sprintf("agrees: %d paths, %d queries, all branches decided by %s", ex2.Paths, ex2.Queries, sk)
				} else {
					he.SolverCross[sk] = fmt.Sprintf("DISAGREES: %d paths vs %d", ex2.Paths, ex.Paths)
					fmt.Printf("NOTE: solver cross-check with %s disagrees on %s %v (inconclusive run)\n", sk, hr.Harness, hr.Params)
				}
			}
			domainMode = saved
		}
		he.Wall = time.Since(th).Seconds()
		hes = append(hes, he)
		for _, s := range ex.Samples {
			if len(samples) < 40 {
				samples = append(samples, hr.Harness+": "+s)
			}
		}
		totalPaths += ex.Paths
		totalDecs += ex.Decisions
		totalTraces += int64(he.TracesChecked)
		fmt.Printf("harness %-22s %v paths=%d decisions=%d queries=%d unsat=%d unknown=%d cuts=%d traces=%d/%d mismatches wall=%.1fs%s\n",
			hr.Harness, hr.Params, ex.Paths, ex.Decisions, ex.Queries, ex.UnsatN, ex.UnkN, sumMap(ex.Cuts)+sumMap(ex.EngineErrs), he.TracesChecked, he.TraceMismatch, he.Wall,
			map[bool]string{true: " TRUNCATED", false: ""}[ex.Truncated])
	}
	if totalPaths == 0 {
		fmt.Printf("NOTE: property=%s: nothing explored, no evidence written\n", prop)
		return exit
	}
	kh := []string{}
	for k := range knownHit {
		kh = append(kh, k)
	}
	sort.Strings(kh)
	ev := map[string]interface{}{
		"property_id": prop,
		"tier":        tier,
		"seed":        seed,
		"level":       "model_checking",
		"wall_s":      time.Since(t0).Seconds(),
		"violations":  violations,
		"coverage": map[string]interface{}{
			"states":                        totalPaths,
			"transitions":                   maxI64(totalDecs, 1),
			"traces_validated_against_impl": totalTraces,
			"samples":                       samples,
			"exhaustive":                    allExhaustive(hes),
			"explanation":                   "bounded symbolic execution of the real code from go/ssa: states = feasible symbolic paths completed (each stands for every assignment of its symbolic bytes/ints that drives the code the same way), transitions = branch decisions, each admitted or pruned by an SMT verdict",
			"bounds":                        cfg.Bounds,
			"outside_the_claim":             cfg.Outside,
			"harnesses":                     hes,
			"known_findings_hit":            kh,
			"solver":                        envOr("VERIF_SOLVER", "z3-new") + " (incremental, one process per worker)",
			"stubs":                         stubList,
		},
		"assumptions": []string{
			"go/packages + go/ssa (x/tools v0.29.0) IR is faithful to the compiler",
			"the engine's instruction semantics (validated on every run by replaying sampled paths natively)",
			"solver verdicts (unsat trusted; unknown never counted as pruned)",
			"library models listed under coverage.stubs",
		},
	}
	b, _ := json.MarshalIndent(ev, "", " ")
	os.MkdirAll(filepath.Dir(evPath), 0o755)
	os.WriteFile(evPath, b, 0o644)
	fmt.Printf("property=%s tier=%s paths=%d violations=%d known=%d wall=%.1fs\n", prop, tier, totalPaths, violations, len(kh), time.Since(t0).Seconds())
	return exit
}

func maxI64(a, b int64) int64 {
	if a > b {
		return a
	}
	return b
}

func sumMap(m map[string]int64) int64 {
	var s int64
	for _, v := range m {
		s += v
	}
	return s
}

func allExhaustive(hes []harnessEvidence) bool {
	for _, h := range hes {
		if h.Truncated || len(h.Cuts) > 0 || len(h.EngineErrors) > 0 || h.Unknown > 0 {
			return false
		}
	}
	return true
}

func coveredFunctions(ex *Explorer) []string {
	set := map[string]bool{}
	for b := range ex.Cov {
		f := b.Parent()
		if f.Pkg != nil && strings.HasPrefix(f.Pkg.Pkg.Path(), modulePath) && !strings.HasPrefix(f.Pkg.Pkg.Path(), harnessPkgPath) {
			set[strings.TrimPrefix(f.String(), modulePath)] = true
		}
	}
	out := []string{}
	for k := range set {
		out = append(out, k)
	}
	sort.Strings(out)
	return out
}

type replayFile struct {
	Property  string           `json:"property"`
	Harness   string           `json:"harness"`
	Params    map[string]int64 `json:"params"`
	Vals      []int64          `json:"vals"`
	Assertion string           `json:"assertion"`
	Site      string           `json:"site,omitempty"`
	Tags      []string         `json:"tags,omitempty"`
	Text      string           `json:"input"`
	Native    []string         `json:"native_outcome"`
}

func writeReplay(prop string, hr hrun, c *Candidate, native []string) string {
	rf := replayFile{Property: prop, Harness: hr.Harness, Params: hr.Params, Vals: c.Vals, Assertion: c.Assertion, Site: c.Site, Tags: c.Tags, Text: c.Text, Native: native}
	b, _ := json.MarshalIndent(rf, "", " ")
	h := sha1.Sum(b)
	dir := filepath.Join(verifDir, "replays")
	os.MkdirAll(dir, 0o755)
	p := filepath.Join(dir, fmt.Sprintf("%s-%s-%x.json", prop, hr.Harness, h[:5]))
	os.WriteFile(p, b, 0o644)
	return p
}

// cmdReplay re-runs a replay file against the natively built real code.
func cmdReplay(args []string) int {
	if len(args) < 1 {
		return 2
	}
	b, err := os.ReadFile(args[0])
	if err != nil {
		fmt.Fprintln(os.Stderr, err)
		return 2
	}
	var rf replayFile
	if err := json.Unmarshal(b, &rf); err != nil {
		fmt.Fprintln(os.Stderr, err)
		return 2
	}
	twin, err := buildTwin()
	if err != nil {
		fmt.Fprintln(os.Stderr, err)
		return 2
	}
	defer twin.Close()
	outs, err := twin.RunBatch([]twinReq{{Harness: rf.Harness, Params: rf.Params, Vals: rf.Vals}})
	if err != nil {
		fmt.Fprintln(os.Stderr, err)
		return 2
	}
	fmt.Printf("input: %s\n", rf.Text)
	for _, l := range outs[0] {
		fmt.Println(" ", l)
	}
	fail := false
	if rf.Assertion == "globals-unchanged" || rf.Assertion == "no-nondeterminism-source" {
		if text, has := obsValue(outs[0], "text"); has {
			raced, _ := twin.raceProbe(text)
			fail = raced
			if raced {
				fmt.Println("  race detector: DATA RACE on the concurrent probe of this input")
			}
		}
	} else if rf.Assertion == "terminates-within-budget" {
		outs, _ = twin.RunBatchT([]twinReq{{Harness: rf.Harness, Params: rf.Params, Vals: rf.Vals}}, 20)
		fail = hasLine(outs[0], "CRASH")
	} else if rf.Assertion == "no-panic" {
		fail = hasLine(outs[0], "PANIC") || hasLine(outs[0], "CRASH")
	} else {
		fail = hasLine(outs[0], "ASSERT-FAIL "+rf.Assertion)
	}
	if fail {
		fmt.Printf("VIOLATION property=%s replay=%s\n", rf.Property, args[0])
		return 1
	}
	fmt.Println("not reproduced")
	return 0
}
