package main

// One long-lived solver process per worker (z3 -in by default), driven incrementally with
// push/pop. Every response is read up to an echoed marker so that any "(error" line is seen
// and turns the query inconclusive instead of being silently dropped.

import (
	"bufio"
	"fmt"
	"io"
	"os"
	"os/exec"
	"strconv"
	"strings"
	"sync"
	"time"
)

type Verdict int

const (
	Unsat Verdict = iota
	Sat
	Unknown
)

type Solver struct {
	cmd     *exec.Cmd
	in      io.WriteCloser
	w       *bufio.Writer
	out     *bufio.Reader
	defined map[int]bool // term ids with a define-fun in the current path scope
	declared map[string]bool
	seq     int
	Queries int
	UnsatN  int
	SatN    int
	UnkN    int
	Time    time.Duration
	log     io.Writer // optional SMT-LIB transcript
	kind    string
	broken  bool
}

var solverPrelude = unicodePrelude()

func solverArgv(kind string) []string {
	switch kind {
	case "z3-new":
		return []string{"z3-new", "-in"}
	case "cvc5":
		return []string{"cvc5", "--incremental", "--lang=smt2", "--produce-models"}
	default:
		return []string{"z3", "-in"}
	}
}

func NewSolver(kind string, logw io.Writer) (*Solver, error) {
	argv := solverArgv(kind)
	cmd := exec.Command(argv[0], argv[1:]...)
	in, err := cmd.StdinPipe()
	if err != nil {
		return nil, err
	}
	outp, err := cmd.StdoutPipe()
	if err != nil {
		return nil, err
	}
	cmd.Stderr = cmd.Stdout
	if err := cmd.Start(); err != nil {
		return nil, err
	}
	if logw == nil {
		if p := os.Getenv("VERIF_SMTLOG"); p != "" {
			f, _ := os.Create(p + "." + strconv.Itoa(os.Getpid()) + "." + strconv.Itoa(int(time.Now().UnixNano()%100000)))
			logw = f
		}
	}
	s := &Solver{cmd: cmd, in: in, out: bufio.NewReaderSize(outp, 1<<16), log: logw, kind: kind, w: bufio.NewWriterSize(in, 1<<16)}
	if kind == "cvc5" {
		s.send("(set-logic ALL)\n")
		s.send("(set-option :tlimit-per 10000)\n")
	} else {
		s.send("(set-option :timeout 10000)\n")
	}
	s.send(solverPrelude)
	if lines := s.sync(); hasError(lines) {
		return nil, fmt.Errorf("solver prelude error: %v", lines)
	}
	return s, nil
}

func (s *Solver) Close() {
	s.w.Flush()
	s.in.Close()
	done := make(chan struct{})
	go func() { s.cmd.Wait(); close(done) }()
	select {
	case <-done:
	case <-time.After(2 * time.Second):
		s.cmd.Process.Kill()
	}
}

func (s *Solver) send(str string) {
	if s.log != nil {
		io.WriteString(s.log, str)
	}
	s.w.WriteString(str)
}

// sync reads all output up to a fresh marker.
func (s *Solver) sync() []string {
	s.seq++
	marker := "<<" + strconv.Itoa(s.seq) + ">>"
	s.send("(echo \"" + marker + "\")\n")
	s.w.Flush()
	var lines []string
	for {
		line, err := s.out.ReadString('\n')
		line = strings.TrimSpace(line)
		if strings.Contains(line, marker) {
			return lines
		}
		if line != "" {
			lines = append(lines, line)
		}
		if err != nil {
			s.broken = true
			lines = append(lines, "(error \"solver died: "+err.Error()+"\")")
			return lines
		}
	}
}

func hasError(lines []string) bool {
	for _, l := range lines {
		if strings.Contains(l, "(error") || strings.Contains(l, "unsupported") {
			return true
		}
	}
	return false
}

// BeginPath opens the scope for one path.
func (s *Solver) BeginPath() {
	s.defined = map[int]bool{}
	s.declared = map[string]bool{}
	s.send("(push 1)\n")
}

func (s *Solver) EndPath() {
	s.send("(pop 1)\n")
}

// ref makes sure t is defined in the path scope and returns the text to reference it.
func (s *Solver) ref(t *Term) string {
	switch t.op {
	case OConst:
		return constStr(t.w, t.k)
	case OVar:
		n := smtName(t.name)
		if !s.declared[n] {
			s.declared[n] = true
			s.send("(declare-const " + n + " " + sortStr(t.w) + ")\n")
		}
		return n
	}
	name := "t" + strconv.Itoa(t.id)
	if s.defined[t.id] {
		return name
	}
	body := t.body(s.ref)
	s.defined[t.id] = true
	s.send("(define-fun " + name + " () " + sortStr(t.w) + " " + body + ")\n")
	return name
}

// Assert adds t to the path condition.
func (s *Solver) Assert(t *Term) {
	r := s.ref(t)
	s.send("(assert " + r + ")\n")
}

// CheckWith decides PC ∧ extra. On Sat the values of vars are returned.
func (s *Solver) CheckWith(extra *Term, vars []*Term) (Verdict, map[string]uint64) {
	t0 := time.Now()
	defer func() { s.Time += time.Since(t0) }()
	s.Queries++
	var r string
	if extra != nil {
		r = s.ref(extra)
	}
	for _, v := range vars {
		s.ref(v)
	}
	s.send("(push 1)\n")
	if extra != nil {
		s.send("(assert " + r + ")\n")
	}
	s.send("(check-sat)\n")
	lines := s.sync()
	verdict := Unknown
	if !hasError(lines) && len(lines) > 0 {
		switch lines[len(lines)-1] {
		case "sat":
			verdict = Sat
		case "unsat":
			verdict = Unsat
		}
	}
	var model map[string]uint64
	if verdict == Sat {
		model = map[string]uint64{}
		if len(vars) > 0 {
			var sb strings.Builder
			sb.WriteString("(get-value (")
			for _, v := range vars {
				sb.WriteString(smtName(v.name))
				sb.WriteByte(' ')
			}
			sb.WriteString("))\n")
			s.send(sb.String())
			ml := s.sync()
			if hasError(ml) {
				verdict = Unknown
			} else {
				parseValues(strings.Join(ml, " "), model)
				for _, v := range vars {
					model[v.name] = model[smtName(v.name)]
				}
			}
		}
	}
	s.send("(pop 1)\n")
	switch verdict {
	case Sat:
		s.SatN++
	case Unsat:
		s.UnsatN++
	default:
		s.UnkN++
	}
	return verdict, model
}

// parseValues reads "((name #x..) (name true) ...)".
func parseValues(txt string, out map[string]uint64) {
	toks := strings.FieldsFunc(txt, func(r rune) bool { return r == '(' || r == ')' || r == ' ' })
	for i := 0; i+1 < len(toks); i++ {
		name := toks[i]
		val := toks[i+1]
		if !strings.HasPrefix(name, "v_") {
			continue
		}
		switch {
		case strings.HasPrefix(val, "#x"):
			u, _ := strconv.ParseUint(val[2:], 16, 64)
			out[name] = u
			i++
		case strings.HasPrefix(val, "#b"):
			u, _ := strconv.ParseUint(val[2:], 2, 64)
			out[name] = u
			i++
		case val == "true":
			out[name] = 1
			i++
		case val == "false":
			out[name] = 0
			i++
		case val == "_" && i+3 < len(toks) && strings.HasPrefix(toks[i+2], "bv"):
			// (_ bv10 32)
			u, _ := strconv.ParseUint(toks[i+2][2:], 10, 64)
			out[name] = u
			i += 3
		}
	}
}

// Solver processes are reused across the harness runs of one check (start-up of 16 processes
// costs about a second per run otherwise). Every path runs inside its own push/pop scope, so a
// released process carries no assertions.
var (
	poolMu sync.Mutex
	pool   = map[string][]*Solver{}
)

func acquireSolver(kind string) (*Solver, error) {
	poolMu.Lock()
	if l := pool[kind]; len(l) > 0 {
		s := l[len(l)-1]
		pool[kind] = l[:len(l)-1]
		poolMu.Unlock()
		return s, nil
	}
	poolMu.Unlock()
	return NewSolver(kind, nil)
}

func releaseSolver(s *Solver) {
	if s.broken {
		s.Close()
		return
	}
	poolMu.Lock()
	pool[s.kind] = append(pool[s.kind], s)
	poolMu.Unlock()
}

func closeSolverPool() {
	poolMu.Lock()
	defer poolMu.Unlock()
	for _, l := range pool {
		for _, s := range l {
			s.Close()
		}
	}
	pool = map[string][]*Solver{}
}
