package main

// Byte domains: a complete decision procedure for the fragment "conditions that depend on one
// 8-bit input variable" (exhaustive evaluation of the condition over that variable's 256 values).
// Such conditions never reach z3: they refine the variable's value set, implied branches are
// recognised without a query, and when the variable occurs in no multi-variable constraint both
// sides of a fork are witnessed by patching the cached model. Everything else goes to z3 with
// the current value sets asserted first. With VERIF_DOMAINS=check every decision taken here is
// re-decided by z3 and any disagreement aborts the path as an engine error; VERIF_DOMAINS=off
// routes every branch through z3.

import (
	"fmt"
	"math/bits"
	"os"
	"strings"
)

type bset [4]uint64

func (b *bset) has(v int) bool  { return b[v>>6]&(1<<uint(v&63)) != 0 }
func (b *bset) set(v int)       { b[v>>6] |= 1 << uint(v&63) }
func (b bset) and(o bset) bset  { return bset{b[0] & o[0], b[1] & o[1], b[2] & o[2], b[3] & o[3]} }
func (b bset) andNot(o bset) bset { return bset{b[0] &^ o[0], b[1] &^ o[1], b[2] &^ o[2], b[3] &^ o[3]} }
func (b bset) empty() bool      { return b[0]|b[1]|b[2]|b[3] == 0 }
func (b bset) count() int {
	return bits.OnesCount64(b[0]) + bits.OnesCount64(b[1]) + bits.OnesCount64(b[2]) + bits.OnesCount64(b[3])
}
func (b bset) first() int {
	for i := 0; i < 4; i++ {
		if b[i] != 0 {
			return i*64 + bits.TrailingZeros64(b[i])
		}
	}
	return -1
}

var fullSet = bset{^uint64(0), ^uint64(0), ^uint64(0), ^uint64(0)}

var domainMode = os.Getenv("VERIF_DOMAINS") // "", "off", "check"

type domState struct {
	dom     map[int]bset  // var id -> current value set (absent = all 256)
	nonfree map[int]bool  // var ids that occur in a multi-variable constraint of the path condition
	dirty   map[int]bool  // var ids whose set changed since the last flush to the solver
	supp    map[int]*Term // term id -> its single 8-bit variable (nil = none or several)
	suppK   map[int]int8  // 0 const, 1 single byte var, 2 other
	tsets   map[int]bset  // condition id -> values of its variable that make it true
	pending []*Term       // multi-variable conditions not yet sent to the solver
	gen     int32
	stamp   []int32
	slot    []int32
	order   []*Term
	vals    []uint64
}

func newDomState() *domState {
	return &domState{dom: map[int]bset{}, nonfree: map[int]bool{}, dirty: map[int]bool{}, supp: map[int]*Term{}, suppK: map[int]int8{}, tsets: map[int]bset{}}
}

// support classifies t: (x, 1) if it depends on exactly one 8-bit variable.
func (in *Interp) support(t *Term) (*Term, int8) {
	d := in.ds
	if k, ok := d.suppK[t.id]; ok {
		return d.supp[t.id], k
	}
	var x *Term
	var k int8
	switch t.op {
	case OConst:
		k = 0
	case OVar:
		if t.w == 8 {
			x, k = t, 1
		} else {
			k = 2
		}
	default:
		for _, c := range []*Term{t.a, t.b, t.c} {
			if c == nil {
				continue
			}
			cx, ck := in.support(c)
			switch {
			case ck == 2:
				k = 2
			case ck == 1 && k == 0:
				x, k = cx, 1
			case ck == 1 && k == 1 && cx != x:
				k = 2
			}
			if k == 2 {
				x = nil
				break
			}
		}
	}
	d.supp[t.id], d.suppK[t.id] = x, k
	return x, k
}

// collectVars adds every variable of t to the non-free set.
func (in *Interp) markNonFree(t *Term, seen map[int]bool) {
	if seen[t.id] {
		return
	}
	seen[t.id] = true
	if t.op == OVar {
		in.ds.nonfree[t.id] = true
		return
	}
	for _, c := range []*Term{t.a, t.b, t.c} {
		if c != nil {
			in.markNonFree(c, seen)
		}
	}
}

// truthSet computes {v : c[x:=v] is true} by evaluating the sub-DAG of c for all 256 values.
func (in *Interp) truthSet(c, x *Term) bset {
	if s, ok := in.ds.tsets[c.id]; ok {
		return s
	}
	// topological order of the nodes below c
	d := in.ds
	d.gen++
	order := d.order[:0]
	var visit func(t *Term)
	visit = func(t *Term) {
		if t.op == OConst || t == x {
			return
		}
		if t.id < len(d.stamp) && d.stamp[t.id] == d.gen {
			return
		}
		for len(d.stamp) <= t.id {
			d.stamp = append(d.stamp, 0)
			d.slot = append(d.slot, 0)
		}
		d.stamp[t.id] = d.gen
		if t.a != nil {
			visit(t.a)
		}
		if t.b != nil {
			visit(t.b)
		}
		if t.c != nil {
			visit(t.c)
		}
		d.slot[t.id] = int32(len(order))
		order = append(order, t)
	}
	visit(c)
	d.order = order
	vals := d.vals[:0]
	for range order {
		vals = append(vals, 0)
	}
	d.vals = vals
	var s bset
	var xv uint64
	get := func(t *Term) uint64 {
		if t.op == OConst {
			return t.k
		}
		if t == x {
			return xv
		}
		return vals[d.slot[t.id]]
	}
	for v := 0; v < 256; v++ {
		xv = uint64(v)
		for i, t := range order {
			var r uint64
			switch t.op {
			case OVar:
				r = 0 // cannot happen: c depends on x only
			case ONot:
				r = 1 - get(t.a)
			case OAnd:
				r = get(t.a) & get(t.b)
			case OOr:
				r = get(t.a) | get(t.b)
			case OEq:
				if get(t.a) == get(t.b) {
					r = 1
				}
			case OUlt:
				if get(t.a) < get(t.b) {
					r = 1
				}
			case OUle:
				if get(t.a) <= get(t.b) {
					r = 1
				}
			case OSlt:
				if sext(get(t.a), t.a.w) < sext(get(t.b), t.a.w) {
					r = 1
				}
			case OSle:
				if sext(get(t.a), t.a.w) <= sext(get(t.b), t.a.w) {
					r = 1
				}
			case OIte:
				if get(t.a) == 1 {
					r = get(t.b)
				} else {
					r = get(t.c)
				}
			case OBNot:
				r = ^get(t.a) & mask(t.w)
			case ONeg:
				r = -get(t.a) & mask(t.w)
			case OExtract:
				r = (get(t.a) >> uint(t.k2)) & mask(t.w)
			case OZExt:
				r = get(t.a)
			case OSExt:
				r = uint64(sext(get(t.a), t.a.w)) & mask(t.w)
			case OApp:
				if evalApp(t.name, get(t.a)) {
					r = 1
				}
			default:
				r, _ = foldBin(t.op, t.w, get(t.a), get(t.b))
			}
			vals[i] = r
		}
		if get(c) == 1 {
			s.set(v)
		}
	}
	in.ds.tsets[c.id] = s
	return s
}

func (in *Interp) domOf(x *Term) bset {
	if d, ok := in.ds.dom[x.id]; ok {
		return d
	}
	return fullSet
}

func (in *Interp) setDom(x *Term, d bset) {
	in.ds.dom[x.id] = d
	in.ds.dirty[x.id] = true
	if d.count() == 1 {
		in.tab.pins[x.id] = uint64(d.first())
	}
}

// domTerm renders "x ∈ d" as a formula over ranges.
func (in *Interp) domTerm(x *Term, d bset) *Term {
	tt := in.tab
	res := tt.Bool(false)
	for lo := 0; lo < 256; lo++ {
		if !d.has(lo) {
			continue
		}
		hi := lo
		for hi+1 < 256 && d.has(hi+1) {
			hi++
		}
		var c *Term
		if lo == hi {
			c = tt.mk(OEq, 0, x, tt.Const(8, uint64(lo)), nil, 0, 0, "")
		} else {
			c = tt.mk(OAnd, 0, tt.mk(OUle, 0, tt.Const(8, uint64(lo)), x, nil, 0, 0, ""), tt.mk(OUle, 0, x, tt.Const(8, uint64(hi)), nil, 0, 0, ""), nil, 0, 0, "")
		}
		if res.isFalse() {
			res = c
		} else {
			res = tt.mk(OOr, 0, res, c, nil, 0, 0, "")
		}
		lo = hi
	}
	return res
}

// flush sends the value sets that changed and the pending conditions to the solver.
func (in *Interp) flush() {
	d := in.ds
	if len(d.dirty) > 0 {
		for _, v := range in.tab.vars {
			if d.dirty[v.id] {
				in.solver.Assert(in.domTerm(v, d.dom[v.id]))
			}
		}
		d.dirty = map[int]bool{}
	}
	for _, c := range d.pending {
		in.solver.Assert(c)
	}
	d.pending = d.pending[:0]
}

// check decides PC ∧ extra with z3.
func (in *Interp) check(extra *Term, wantModel bool) (Verdict, map[string]uint64) {
	in.flush()
	var vars []*Term
	if wantModel {
		vars = in.tab.vars
	}
	return in.solver.CheckWith(extra, vars)
}

// domDecide tries to decide c without the solver. It returns (value, decided).
// forkable reports that both sides are possible and that the other side's model can be obtained
// by patching the variable (otherModel).
type domVerdict struct {
	decided  bool
	value    bool
	single   bool // c depends on one byte variable
	x        *Term
	t, f     bset // possible values making c true / false
	free     bool
}

func (in *Interp) domLook(c *Term) domVerdict {
	if domainMode == "off" || in.boot {
		return domVerdict{}
	}
	x, k := in.support(c)
	if k != 1 {
		// Boolean structure over single-variable conditions: three-valued evaluation
		if r := in.eval3(c, 0); r != 0 {
			v := domVerdict{decided: true, value: r > 0}
			in.ex.domDecided.Add(1)
			if domainMode == "check" || in.recheck {
				in.ex.domRechecked.Add(1)
				neg := c
				if v.value {
					neg = in.tab.Not(c)
				}
				if verdict, _ := in.check(neg, false); verdict != Unsat {
					panic(engineErr("domain decision (3-valued) disagrees with z3 on term %d", c.id))
				}
			}
			return v
		}
		return domVerdict{}
	}
	D := in.domOf(x)
	T := in.truthSet(c, x).and(D)
	F := D.andNot(T)
	v := domVerdict{single: true, x: x, t: T, f: F, free: !in.ds.nonfree[x.id]}
	if F.empty() {
		v.decided, v.value = true, true
	} else if T.empty() {
		v.decided, v.value = true, false
	}
	if v.decided {
		in.ex.domDecided.Add(1)
	}
	if v.decided && (domainMode == "check" || in.recheck) {
		in.ex.domRechecked.Add(1)
		neg := c
		if v.value {
			neg = in.tab.Not(c)
		}
		if verdict, _ := in.check(neg, false); verdict != Unsat {
			panic(engineErr("domain decision disagrees with z3 on term %d (value %v, verdict %d)", c.id, v.value, verdict))
		}
	}
	return v
}

func describeSet(b bset) string {
	var sb strings.Builder
	for lo := 0; lo < 256; lo++ {
		if !b.has(lo) {
			continue
		}
		hi := lo
		for hi+1 < 256 && b.has(hi+1) {
			hi++
		}
		if lo == hi {
			fmt.Fprintf(&sb, "%02x ", lo)
		} else {
			fmt.Fprintf(&sb, "%02x-%02x ", lo, hi)
		}
		lo = hi
	}
	return sb.String()
}

// eval3 evaluates a Boolean combination of single-variable conditions over the current value
// sets: +1 implied true, -1 implied false, 0 unknown.
func (in *Interp) eval3(c *Term, depth int) int {
	if c.w != 0 || depth > 40 {
		return 0
	}
	if v, ok := in.tab.cval(c); ok {
		if v == 1 {
			return 1
		}
		return -1
	}
	if x, k := in.support(c); k == 1 {
		D := in.domOf(x)
		T := in.truthSet(c, x).and(D)
		if D.andNot(T).empty() {
			return 1
		}
		if T.empty() {
			return -1
		}
		return 0
	}
	switch c.op {
	case ONot:
		return -in.eval3(c.a, depth+1)
	case OAnd:
		a := in.eval3(c.a, depth+1)
		if a < 0 {
			return -1
		}
		b := in.eval3(c.b, depth+1)
		if b < 0 {
			return -1
		}
		if a > 0 && b > 0 {
			return 1
		}
	case OOr:
		a := in.eval3(c.a, depth+1)
		if a > 0 {
			return 1
		}
		b := in.eval3(c.b, depth+1)
		if b > 0 {
			return 1
		}
		if a < 0 && b < 0 {
			return -1
		}
	}
	return 0
}
