package main

// Symbolic interpreter for go/ssa (structure after golang.org/x/tools/go/ssa/interp).
// Control flow is always concrete along one path: a branch on a symbolic condition asks the
// explorer (branch), which consults the cached model and the solver and schedules the other side.

import (
	"fmt"
	"go/constant"
	"go/token"
	"go/types"
	"math"
	"strings"
	"sync"

	"golang.org/x/tools/go/ssa"
)

type fnInfo struct {
	index map[ssa.Value]int
	n     int
	phis  map[*ssa.BasicBlock]int // number of leading phis
}

var fnInfos sync.Map // *ssa.Function -> *fnInfo

func infoOf(fn *ssa.Function) *fnInfo {
	if fi, ok := fnInfos.Load(fn); ok {
		return fi.(*fnInfo)
	}
	fi := &fnInfo{index: map[ssa.Value]int{}, phis: map[*ssa.BasicBlock]int{}}
	add := func(v ssa.Value) {
		fi.index[v] = fi.n
		fi.n++
	}
	for _, p := range fn.Params {
		add(p)
	}
	for _, p := range fn.FreeVars {
		add(p)
	}
	for _, b := range fn.Blocks {
		np := 0
		for _, ins := range b.Instrs {
			if _, ok := ins.(*ssa.Phi); ok {
				np++
			}
			if v, ok := ins.(ssa.Value); ok {
				add(v)
			}
		}
		fi.phis[b] = np
	}
	act, _ := fnInfos.LoadOrStore(fn, fi)
	return act.(*fnInfo)
}

type frame struct {
	in        *Interp
	fn        *ssa.Function
	info      *fnInfo
	env       []value
	block     *ssa.BasicBlock
	prevBlock *ssa.BasicBlock
	result    value
}

func (fr *frame) get(key ssa.Value) value {
	switch key := key.(type) {
	case nil:
		return nil
	case *ssa.Function:
		return key
	case *ssa.Builtin:
		return key
	case *ssa.Const:
		return fr.in.constValue(key)
	case *ssa.Global:
		return fr.in.globalAddr(key)
	}
	if i, ok := fr.info.index[key]; ok {
		return fr.env[i]
	}
	panic(engineErr("get: no value for %T %v in %v", key, key.Name(), fr.fn))
}

func (fr *frame) set(key ssa.Value, v value) {
	fr.env[fr.info.index[key]] = v
}

func (in *Interp) constValue(c *ssa.Const) value {
	if c.Value == nil {
		return zero(c.Type())
	}
	t := c.Type().Underlying()
	if b, ok := t.(*types.Basic); ok {
		switch {
		case b.Info()&types.IsBoolean != 0:
			return constant.BoolVal(c.Value)
		case b.Info()&types.IsString != 0:
			if c.Value.Kind() == constant.String {
				return constant.StringVal(c.Value)
			}
			return string(rune(c.Int64()))
		case b.Info()&types.IsInteger != 0:
			w, signed, _ := intInfo(b)
			if signed {
				return norm(c.Int64(), w, true)
			}
			return norm(int64(c.Uint64()), w, false)
		case b.Info()&types.IsFloat != 0:
			return c.Float64()
		}
	}
	panic(engineErr("constValue %v : %v", c, c.Type()))
}

// ---------------------------------------------------------------------------------------------

func (in *Interp) callSSA(fn *ssa.Function, args []value, env []value) value {
	if fn == nil {
		in.targetPanic("call of nil function")
	}
	if fn.Parent() == nil || true {
		name := fn.String()
		if ext, ok := intrinsics[name]; ok {
			return ext(in, fn, args)
		}
		if fn.Pkg != nil && strings.HasPrefix(name, harnessPkgPath+".rt") {
			if ext, ok := rtIntrinsics[fn.Name()]; ok {
				return ext(in, fn, args)
			}
		}
	}
	return in.callBody(fn, args, env...)
}

// callBody interprets the SSA body of fn.
func (in *Interp) callBody(fn *ssa.Function, args []value, env ...value) value {
	if fn.Blocks == nil {
		panic(cut("unknown-callee:%s", fn.String()))
	}
	if fn.TypeParams().Len() > 0 && len(fn.TypeArgs()) == 0 {
		panic(engineErr("uninstantiated generic %v", fn))
	}
	in.depth++
	if in.depth > 400 {
		in.depth = 0
		panic(&pathEnd{kind: endBudget, msg: "call depth > 400 in " + fn.String()})
	}
	info := infoOf(fn)
	fr := &frame{in: in, fn: fn, info: info, env: make([]value, info.n)}
	for i, p := range fn.Params {
		fr.env[info.index[p]] = args[i]
	}
	for i, fv := range fn.FreeVars {
		fr.env[info.index[fv]] = env[i]
	}
	in.stack = append(in.stack, fn)
	fr.block = fn.Blocks[0]
	for fr.block != nil {
		in.runBlock(fr)
	}
	in.stack = in.stack[:len(in.stack)-1]
	in.depth--
	return fr.result
}

func (in *Interp) runBlock(fr *frame) {
	b := fr.block
	if in.cov != nil {
		in.cov[b] = struct{}{}
	}
	np := fr.info.phis[b]
	if np > 0 {
		predIndex := -1
		for i, p := range b.Preds {
			if p == fr.prevBlock {
				predIndex = i
				break
			}
		}
		tmp := make([]value, np)
		for i := 0; i < np; i++ {
			tmp[i] = fr.get(b.Instrs[i].(*ssa.Phi).Edges[predIndex])
		}
		for i := 0; i < np; i++ {
			fr.set(b.Instrs[i].(*ssa.Phi), tmp[i])
		}
	}
	for _, instr := range b.Instrs[np:] {
		in.steps++
		if in.steps > in.budget {
			panic(&pathEnd{kind: endBudget, msg: "instruction budget exhausted in " + fr.fn.String()})
		}
		if in.visit(fr, instr) {
			return
		}
	}
}

// visit executes one instruction; it returns true after a control transfer.
func (in *Interp) visit(fr *frame, instr ssa.Instruction) bool {
	switch instr := instr.(type) {
	case *ssa.DebugRef:
	case *ssa.UnOp:
		fr.set(instr, in.unop(instr, fr.get(instr.X)))
	case *ssa.BinOp:
		fr.set(instr, in.binop(instr.Op, instr.X.Type(), fr.get(instr.X), fr.get(instr.Y)))
	case *ssa.Call:
		fn, args := in.prepareCall(fr, &instr.Call)
		fr.set(instr, in.call(fn, args))
	case *ssa.ChangeInterface:
		fr.set(instr, fr.get(instr.X))
	case *ssa.ChangeType:
		fr.set(instr, fr.get(instr.X))
	case *ssa.Convert:
		fr.set(instr, in.conv(instr.Type(), instr.X.Type(), fr.get(instr.X)))
	case *ssa.MakeInterface:
		fr.set(instr, iface{t: instr.X.Type(), v: fr.get(instr.X)})
	case *ssa.Extract:
		fr.set(instr, fr.get(instr.Tuple).(tuple)[instr.Index])
	case *ssa.Slice:
		fr.set(instr, in.sliceOp(instr, fr.get(instr.X), fr.get(instr.Low), fr.get(instr.High), fr.get(instr.Max)))
	case *ssa.Return:
		switch len(instr.Results) {
		case 0:
		case 1:
			fr.result = fr.get(instr.Results[0])
		default:
			res := make(tuple, len(instr.Results))
			for i, r := range instr.Results {
				res[i] = fr.get(r)
			}
			fr.result = res
		}
		fr.block = nil
		return true
	case *ssa.RunDefers:
		// no defers are supported; Defer cuts the path
	case *ssa.Panic:
		in.targetPanic("panic: " + in.panicText(fr.get(instr.X)))
	case *ssa.Store:
		in.store(fr.get(instr.Addr), fr.get(instr.Val))
	case *ssa.If:
		succ := 1
		if in.truth(fr.get(instr.Cond)) {
			succ = 0
		}
		fr.prevBlock, fr.block = fr.block, fr.block.Succs[succ]
		return true
	case *ssa.Jump:
		fr.prevBlock, fr.block = fr.block, fr.block.Succs[0]
		return true
	case *ssa.Alloc:
		addr := new(value)
		*addr = zero(deref(instr.Type()))
		fr.set(instr, addr)
	case *ssa.MakeSlice:
		n := in.concInt(fr.get(instr.Len), "make-len")
		c := in.concInt(fr.get(instr.Cap), "make-cap")
		if n < 0 || c < n || c > 1<<20 {
			in.targetPanic("runtime error: makeslice: len out of range")
		}
		sl := make([]value, c)
		tElt := instr.Type().Underlying().(*types.Slice).Elem()
		for i := range sl {
			sl[i] = zero(tElt)
		}
		fr.set(instr, sl[:n])
	case *ssa.MakeMap:
		fr.set(instr, newHmap(instr.Type().Underlying().(*types.Map).Key()))
	case *ssa.Range:
		x := fr.get(instr.X)
		switch x := x.(type) {
		case *hmap:
			in.noteNondet("range-over-map in " + fr.fn.String())
			fr.set(instr, &mapIter{m: x})
		default:
			panic(cut("range-over-%T", x))
		}
	case *ssa.Next:
		it := fr.get(instr.Iter).(*mapIter)
		if it.m == nil || it.i >= len(it.m.entries) {
			fr.set(instr, tuple{false, nil, nil})
		} else {
			e := it.m.entries[it.i]
			it.i++
			fr.set(instr, tuple{true, e.k, copyVal(e.v)})
		}
	case *ssa.FieldAddr:
		x := fr.get(instr.X)
		switch p := x.(type) {
		case *value:
			if p == nil {
				in.targetPanic("runtime error: invalid memory address or nil pointer dereference")
			}
			fr.set(instr, &(*p).(structure)[instr.Field])
		case *symPtr:
			cells := make([]*value, len(p.cells))
			for i, c := range p.cells {
				cells[i] = &(*c).(structure)[instr.Field]
			}
			fr.set(instr, &symPtr{cells: cells, idx: p.idx, t: deref(instr.Type())})
		default:
			panic(engineErr("FieldAddr on %T", x))
		}
	case *ssa.Field:
		fr.set(instr, fr.get(instr.X).(structure)[instr.Field])
	case *ssa.IndexAddr:
		fr.set(instr, in.indexAddr(instr, fr.get(instr.X), fr.get(instr.Index)))
	case *ssa.Index:
		fr.set(instr, in.index(instr, fr.get(instr.X), fr.get(instr.Index)))
	case *ssa.Lookup:
		fr.set(instr, in.lookup(instr, fr.get(instr.X), fr.get(instr.Index)))
	case *ssa.MapUpdate:
		m := fr.get(instr.Map).(*hmap)
		if m == nil {
			in.targetPanic("assignment to entry in nil map")
		}
		k := fr.get(instr.Key)
		if _, sym := k.(*Term); sym {
			panic(cut("map-update-symbolic-key"))
		}
		if in.mapSymbolic(m, k) {
			if i := in.mapFind(m, k); i >= 0 {
				m.entries[i].v = copyVal(fr.get(instr.Value))
			} else if ss, isSym := k.(*symStr); isSym {
				m.entries = append(m.entries, hentry{ss, copyVal(fr.get(instr.Value))})
				m.nsym++
			} else {
				m.insert(k, copyVal(fr.get(instr.Value)))
			}
			break
		}
		m.insert(k, copyVal(fr.get(instr.Value)))
	case *ssa.TypeAssert:
		fr.set(instr, in.typeAssert(instr, fr.get(instr.X).(iface)))
	case *ssa.MakeClosure:
		binds := make([]value, len(instr.Bindings))
		for i, b := range instr.Bindings {
			binds[i] = fr.get(b)
		}
		fr.set(instr, &closure{instr.Fn.(*ssa.Function), binds})
	case *ssa.Defer:
		panic(cut("defer in %s", fr.fn))
	case *ssa.Go:
		in.noteNondet("go statement in " + fr.fn.String())
		panic(cut("go statement in %s", fr.fn))
	case *ssa.Send, *ssa.Select, *ssa.MakeChan:
		in.noteNondet("channel operation in " + fr.fn.String())
		panic(cut("channel op in %s", fr.fn))
	case *ssa.SliceToArrayPointer:
		panic(cut("slice-to-array-pointer"))
	default:
		panic(cut("unsupported instruction %T", instr))
	}
	return false
}

func (in *Interp) targetPanic(msg string) {
	site := ""
	// innermost function that belongs to the module under test (or else innermost)
	for i := len(in.stack) - 1; i >= 0; i-- {
		f := in.stack[i]
		if site == "" {
			site = f.String()
		}
		if f.Pkg != nil && strings.HasPrefix(f.Pkg.Pkg.Path(), modulePath) && !strings.HasPrefix(f.Pkg.Pkg.Path(), harnessPkgPath) {
			site = f.String()
			break
		}
	}
	panic(&pathEnd{kind: endPanic, msg: msg, site: site})
}

func (in *Interp) panicText(v value) string {
	if i, ok := v.(iface); ok {
		if s, ok := i.v.(string); ok {
			return s
		}
		return fmt.Sprintf("%v", i.t)
	}
	return "?"
}

// truth converts a boolean value to a concrete decision, forking on symbolic conditions.
func (in *Interp) truth(v value) bool {
	switch v := v.(type) {
	case bool:
		return v
	case *Term:
		return in.branch(v)
	}
	panic(engineErr("truth of %T", v))
}

// concInt forces an integer to be concrete (lengths, capacities, counts).
func (in *Interp) concInt(v value, what string) int64 {
	switch v := v.(type) {
	case int64:
		return v
	case *Term:
		if c, ok := in.tab.cval(v); ok {
			return sext(c, v.w)
		}
		return in.concretize(v, what)
	case nil:
		return 0
	}
	panic(engineErr("concInt of %T (%s)", v, what))
}

func (in *Interp) load(addr value) value {
	switch p := addr.(type) {
	case *value:
		if p == nil {
			in.targetPanic("runtime error: invalid memory address or nil pointer dereference")
		}
		return copyVal(*p)
	case *symPtr:
		return in.loadSym(p)
	}
	panic(engineErr("load from %T", addr))
}

func (in *Interp) store(addr value, v value) {
	switch p := addr.(type) {
	case *value:
		if p == nil {
			in.targetPanic("runtime error: invalid memory address or nil pointer dereference")
		}
		*p = copyVal(v)
		return
	case *symPtr:
		panic(cut("store-through-symbolic-index"))
	}
	panic(engineErr("store to %T", addr))
}

// loadSym reads through a pointer selected by a symbolic index: an ite over the candidates,
// with runs of equal scalar values collapsed into one range test.
func (in *Interp) loadSym(p *symPtr) value {
	n := len(p.cells)
	// scalar fast path: group consecutive equal concrete values
	allInt := true
	for _, c := range p.cells {
		if _, ok := (*c).(int64); !ok {
			allInt = false
			break
		}
	}
	if allInt && n > 0 {
		w, _, _ := intInfo(p.t)
		type run struct {
			lo, hi int
			v      int64
		}
		var runs []run
		for i := 0; i < n; i++ {
			v := (*p.cells[i]).(int64)
			if len(runs) > 0 && runs[len(runs)-1].v == v {
				runs[len(runs)-1].hi = i
			} else {
				runs = append(runs, run{i, i, v})
			}
		}
		res := in.tab.Const(w, uint64(runs[len(runs)-1].v))
		for j := len(runs) - 2; j >= 0; j-- {
			r := runs[j]
			var c *Term
			if r.lo == r.hi {
				c = in.tab.Eq(p.idx, in.tab.Const(64, uint64(r.lo)))
			} else if r.lo == 0 {
				c = in.tab.Ule(p.idx, in.tab.Const(64, uint64(r.hi)))
			} else {
				c = in.tab.And(in.tab.Ule(in.tab.Const(64, uint64(r.lo)), p.idx), in.tab.Ule(p.idx, in.tab.Const(64, uint64(r.hi))))
			}
			res = in.tab.Ite(c, in.tab.Const(w, uint64(r.v)), res)
		}
		_, signed, _ := intInfo(p.t)
		return in.simpInt(res, signed)
	}
	res := copyVal(*p.cells[n-1])
	for i := n - 2; i >= 0; i-- {
		c := in.tab.Eq(p.idx, in.tab.Const(64, uint64(i)))
		res = in.merge(c, copyVal(*p.cells[i]), res, p.t)
	}
	return res
}

// merge builds ite(c, a, b) for scalar-shaped values.
func (in *Interp) merge(c *Term, a, b value, t types.Type) value {
	switch av := a.(type) {
	case structure:
		bv := b.(structure)
		st := t.Underlying().(*types.Struct)
		out := make(structure, len(av))
		for i := range av {
			out[i] = in.merge(c, av[i], bv[i], st.Field(i).Type())
		}
		return out
	case array:
		bv := b.(array)
		et := t.Underlying().(*types.Array).Elem()
		out := make(array, len(av))
		for i := range av {
			out[i] = in.merge(c, av[i], bv[i], et)
		}
		return out
	case bool:
		if bb, ok := b.(bool); ok && bb == av {
			return av
		}
		return in.tab.Ite(c, in.boolTerm(a), in.boolTerm(b))
	case int64:
		if bb, ok := b.(int64); ok && bb == av {
			return av
		}
		w, _, _ := intInfo(t)
		return in.tab.Ite(c, in.intTerm(a, w), in.intTerm(b, w))
	case *Term:
		if av.w == 0 {
			return in.tab.Ite(c, av, in.boolTerm(b))
		}
		return in.tab.Ite(c, av, in.intTerm(b, av.w))
	case string:
		if bs, ok := b.(string); ok && bs == av {
			return av
		}
	}
	panic(cut("merge of %T under symbolic index", a))
}

func (in *Interp) boolTerm(v value) *Term {
	switch v := v.(type) {
	case bool:
		return in.tab.Bool(v)
	case *Term:
		return v
	}
	panic(engineErr("boolTerm of %T", v))
}

func (in *Interp) intTerm(v value, w int) *Term {
	switch v := v.(type) {
	case int64:
		return in.tab.Const(w, uint64(v))
	case *Term:
		if v.w != w {
			panic(engineErr("intTerm width %d want %d", v.w, w))
		}
		return v
	}
	panic(engineErr("intTerm of %T", v))
}

func (in *Interp) indexAddr(instr *ssa.IndexAddr, x, idx value) value {
	var cells []value
	switch xv := x.(type) {
	case []value:
		cells = xv
	case *value:
		if xv == nil {
			in.targetPanic("runtime error: invalid memory address or nil pointer dereference")
		}
		cells = (*xv).(array)
	default:
		panic(engineErr("IndexAddr on %T", x))
	}
	switch i := idx.(type) {
	case int64:
		if i < 0 || i >= int64(len(cells)) {
			in.targetPanic(fmt.Sprintf("runtime error: index out of range [%d] with length %d", i, len(cells)))
		}
		return &cells[i]
	case *Term:
		it := in.widen64(i, instr.Index.Type())
		if c, ok := in.tab.cval(it); ok {
			return in.indexAddr(instr, x, sext(c, 64))
		}
		in.boundsCheck(it, len(cells))
		if len(cells) > 512 {
			return in.indexAddr(instr, x, in.concretize(it, "index"))
		}
		ps := make([]*value, len(cells))
		for j := range cells {
			ps[j] = &cells[j]
		}
		return &symPtr{cells: ps, idx: it, t: deref(instr.Type())}
	}
	panic(engineErr("IndexAddr index %T", idx))
}

func (in *Interp) widen64(t *Term, typ types.Type) *Term {
	if t.w == 64 {
		return t
	}
	_, signed, _ := intInfo(typ)
	if signed {
		return in.tab.SExt(t, 64)
	}
	return in.tab.ZExt(t, 64)
}

// boundsCheck forks on 0 <= i < n (unsigned compare) and panics on the failing side.
func (in *Interp) boundsCheck(i *Term, n int) {
	ok := in.tab.Ult(i, in.tab.Const(64, uint64(n)))
	if !in.truth(ok) {
		in.targetPanic(fmt.Sprintf("runtime error: index out of range [symbolic] with length %d", n))
	}
}

func (in *Interp) index(instr *ssa.Index, x, idx value) value {
	switch xv := x.(type) {
	case array:
		switch i := idx.(type) {
		case int64:
			if i < 0 || i >= int64(len(xv)) {
				in.targetPanic(fmt.Sprintf("runtime error: index out of range [%d] with length %d", i, len(xv)))
			}
			return copyVal(xv[i])
		case *Term:
			it := in.widen64(i, instr.Index.Type())
			if c, ok := in.tab.cval(it); ok {
				return in.index(instr, x, sext(c, 64))
			}
			in.boundsCheck(it, len(xv))
			ps := make([]*value, len(xv))
			for j := range xv {
				ps[j] = &xv[j]
			}
			return in.loadSym(&symPtr{cells: ps, idx: it, t: instr.Type()})
		}
	case string, *symStr:
		b := strBytes(xv)
		switch i := idx.(type) {
		case int64:
			if i < 0 || i >= int64(len(b)) {
				in.targetPanic(fmt.Sprintf("runtime error: index out of range [%d] with length %d", i, len(b)))
			}
			return b[i]
		case *Term:
			it := in.widen64(i, instr.Index.Type())
			if c, ok := in.tab.cval(it); ok {
				return in.index(instr, x, sext(c, 64))
			}
			in.boundsCheck(it, len(b))
			res := in.intTerm(b[len(b)-1], 8)
			for j := len(b) - 2; j >= 0; j-- {
				res = in.tab.Ite(in.tab.Eq(it, in.tab.Const(64, uint64(j))), in.intTerm(b[j], 8), res)
			}
			return res
		}
	}
	panic(engineErr("Index on %T with %T", x, idx))
}

func (in *Interp) lookup(instr *ssa.Lookup, x, idx value) value {
	switch xv := x.(type) {
	case string, *symStr: // string index (never commaok)
		b := strBytes(xv)
		i := in.concInt(idx, "string-index")
		if i < 0 || i >= int64(len(b)) {
			in.targetPanic(fmt.Sprintf("runtime error: index out of range [%d] with length %d", i, len(b)))
		}
		return b[i]
	case *hmap:
		vt := instr.X.Type().Underlying().(*types.Map).Elem()
		var v value
		var ok value
		switch k := idx.(type) {
		case *Term:
			if c, isc := in.tab.cval(k); isc {
				_, signed, _ := intInfo(instr.Index.Type())
				kv := int64(c)
				if signed {
					kv = sext(c, k.w)
				}
				vv, found := xv.lookup(kv)
				if !found {
					vv = zero(vt)
				}
				v, ok = copyVal(vv), found
				break
			}
			// symbolic scalar key into a concrete map: ite chain over the entries
			var res value = zero(vt)
			okT := in.tab.Bool(false)
			if xv != nil {
				for j := len(xv.entries) - 1; j >= 0; j-- {
					e := xv.entries[j]
					ek, isInt := e.k.(int64)
					if !isInt {
						panic(cut("symbolic key into map with %T keys", e.k))
					}
					c := in.tab.Eq(k, in.tab.Const(k.w, uint64(ek)))
					res = in.merge(c, copyVal(e.v), res, vt)
					okT = in.tab.Or(c, okT)
				}
			}
			v, ok = res, value(okT)
			if okT.isConst() {
				ok = okT.isTrue()
			}
		case *symStr:
			// symbolic string key: fork over the entries of equal length
			if i := in.mapFind(xv, k); i >= 0 {
				v, ok = copyVal(xv.entries[i].v), true
			} else {
				v, ok = zero(vt), false
			}
		default:
			if in.mapSymbolic(xv, idx) {
				if i := in.mapFind(xv, idx); i >= 0 {
					v, ok = copyVal(xv.entries[i].v), true
				} else {
					v, ok = zero(vt), false
				}
				break
			}
			vv, found := xv.lookup(idx)
			if !found {
				vv = zero(vt)
			}
			v, ok = copyVal(vv), found
		}
		if instr.CommaOk {
			return tuple{v, ok}
		}
		return v
	}
	panic(engineErr("Lookup on %T", x))
}

func (in *Interp) sliceOp(instr *ssa.Slice, x, lo, hi, max value) value {
	l := int64(0)
	if lo != nil {
		l = in.concInt(lo, "slice-lo")
	}
	switch xv := x.(type) {
	case string, *symStr:
		b := strBytes(xv)
		h := int64(len(b))
		if hi != nil {
			h = in.concInt(hi, "slice-hi")
		}
		if l < 0 || h < l || h > int64(len(b)) {
			in.targetPanic(fmt.Sprintf("runtime error: slice bounds out of range [%d:%d] with length %d", l, h, len(b)))
		}
		if s, ok := xv.(string); ok {
			return s[l:h]
		}
		return mkStr(b[l:h])
	case []value:
		h := int64(len(xv))
		if hi != nil {
			h = in.concInt(hi, "slice-hi")
		}
		m := int64(cap(xv))
		if max != nil {
			m = in.concInt(max, "slice-max")
		}
		if l < 0 || h < l || m < h || m > int64(cap(xv)) {
			in.targetPanic(fmt.Sprintf("runtime error: slice bounds out of range [%d:%d] with capacity %d", l, h, cap(xv)))
		}
		if xv == nil {
			return []value(nil)
		}
		return xv[l:h:m]
	case *value:
		if xv == nil {
			in.targetPanic("runtime error: invalid memory address or nil pointer dereference")
		}
		a := (*xv).(array)
		h := int64(len(a))
		if hi != nil {
			h = in.concInt(hi, "slice-hi")
		}
		m := int64(len(a))
		if max != nil {
			m = in.concInt(max, "slice-max")
		}
		if l < 0 || h < l || m < h || m > int64(len(a)) {
			in.targetPanic("runtime error: slice bounds out of range")
		}
		return []value(a)[l:h:m]
	}
	panic(engineErr("slice of %T", x))
}

func (in *Interp) typeAssert(instr *ssa.TypeAssert, itf iface) value {
	var v value
	ok := false
	if itf.t != nil {
		if ai, isI := instr.AssertedType.Underlying().(*types.Interface); isI {
			if types.Implements(itf.t, ai) || in.implementsViaMethodSet(itf.t, ai) {
				v, ok = itf, true
			}
		} else if types.Identical(itf.t, instr.AssertedType) {
			v, ok = copyVal(itf.v), true
		}
	}
	if !ok {
		if !instr.CommaOk {
			in.targetPanic(fmt.Sprintf("interface conversion: interface is %v, not %v", itf.t, instr.AssertedType))
		}
		v = zero(instr.AssertedType)
	}
	if instr.CommaOk {
		return tuple{v, ok}
	}
	return v
}

func (in *Interp) implementsViaMethodSet(t types.Type, it *types.Interface) bool {
	ms := in.prog.MethodSets.MethodSet(t)
	for i := 0; i < it.NumMethods(); i++ {
		m := it.Method(i)
		if ms.Lookup(m.Pkg(), m.Name()) == nil {
			return false
		}
	}
	return true
}

func (in *Interp) prepareCall(fr *frame, call *ssa.CallCommon) (fn value, args []value) {
	v := fr.get(call.Value)
	if call.Method == nil {
		fn = v
	} else {
		recv := v.(iface)
		if recv.t == nil {
			in.targetPanic("runtime error: invalid memory address or nil pointer dereference (method on nil interface)")
		}
		if op, ok := recv.v.(opaque); ok {
			// method on an opaque value (reflect.Type.String etc.)
			panic(cut("method %s on opaque %s", call.Method.Name(), op.kind))
		}
		f := in.prog.LookupMethod(recv.t, call.Method.Pkg(), call.Method.Name())
		if f == nil {
			panic(engineErr("no method %s for %v", call.Method.Name(), recv.t))
		}
		fn = f
		args = append(args, recv.v)
	}
	for _, a := range call.Args {
		args = append(args, fr.get(a))
	}
	return
}

func (in *Interp) call(fn value, args []value) value {
	switch fn := fn.(type) {
	case *ssa.Function:
		return in.callSSA(fn, args, nil)
	case *closure:
		return in.callSSA(fn.fn, args, fn.env)
	case *ssa.Builtin:
		return in.callBuiltin(fn, args)
	}
	panic(engineErr("cannot call %T", fn))
}

func (in *Interp) callBuiltin(fn *ssa.Builtin, args []value) value {
	switch fn.Name() {
	case "append":
		if len(args) == 1 {
			return args[0]
		}
		var y []value
		switch a := args[1].(type) {
		case string, *symStr:
			y = strBytes(a)
		case []value:
			y = a
		}
		x := args[0].([]value)
		cp := make([]value, len(y))
		for i, e := range y {
			cp[i] = copyVal(e)
		}
		if x == nil && len(cp) == 0 {
			if y == nil {
				return []value(nil)
			}
		}
		return append(x, cp...)
	case "copy":
		dst := args[0].([]value)
		var src []value
		switch a := args[1].(type) {
		case string, *symStr:
			src = strBytes(a)
		case []value:
			src = a
		}
		n := len(dst)
		if len(src) < n {
			n = len(src)
		}
		tmp := make([]value, n)
		for i := 0; i < n; i++ {
			tmp[i] = copyVal(src[i])
		}
		copy(dst, tmp)
		return int64(n)
	case "len":
		switch x := args[0].(type) {
		case string, *symStr:
			return int64(strLen(x))
		case array:
			return int64(len(x))
		case *value:
			return int64(len((*x).(array)))
		case []value:
			return int64(len(x))
		case *hmap:
			return int64(x.length())
		}
		panic(engineErr("len of %T", args[0]))
	case "cap":
		switch x := args[0].(type) {
		case array:
			return int64(len(x))
		case *value:
			return int64(len((*x).(array)))
		case []value:
			return int64(cap(x))
		}
		panic(engineErr("cap of %T", args[0]))
	case "delete":
		m := args[0].(*hmap)
		if in.mapSymbolic(m, args[1]) {
			if i := in.mapFind(m, args[1]); i >= 0 {
				m.removeAt(i)
			}
			return nil
		}
		m.remove(args[1])
		return nil
	case "print", "println":
		return nil
	case "min", "max":
		// concrete operands of one kind only
		isMax := fn.Name() == "max"
		switch a0 := args[0].(type) {
		case int64:
			best := a0
			for _, a := range args[1:] {
				x, ok := a.(int64)
				if !ok {
					panic(cut("builtin %s on symbolic operands", fn.Name()))
				}
				if (isMax && x > best) || (!isMax && x < best) {
					best = x
				}
			}
			return best
		case float64:
			best := a0
			for _, a := range args[1:] {
				x, ok := a.(float64)
				if !ok {
					panic(cut("builtin %s on symbolic operands", fn.Name()))
				}
				if isMax {
					best = math.Max(best, x)
				} else {
					best = math.Min(best, x)
				}
			}
			return best
		}
		panic(cut("builtin %s on symbolic operands", fn.Name()))
	case "ssa:wrapnilchk":
		if p, ok := args[0].(*value); ok && p == nil {
			in.targetPanic("value method called using nil pointer")
		}
		return args[0]
	case "recover":
		return iface{}
	}
	panic(cut("builtin %s in %s", fn.Name(), in.where()))
}

// ---------------------------------------------------------------------------------------------
// operators

func (in *Interp) unop(instr *ssa.UnOp, x value) value {
	switch instr.Op {
	case token.MUL:
		return in.load(x)
	case token.NOT:
		switch x := x.(type) {
		case bool:
			return !x
		case *Term:
			return in.simpBool(in.tab.Not(x))
		}
	case token.SUB:
		switch x := x.(type) {
		case int64:
			w, s, _ := intInfo(instr.Type())
			return norm(-x, w, s)
		case *Term:
			_, sg, _ := intInfo(instr.Type())
			return in.simpInt(in.tab.Neg(x), sg)
		case float64:
			return -x
		case intFloat:
			return intFloat{in.tab.Neg(x.t)}
		}
	case token.XOR:
		switch x := x.(type) {
		case int64:
			w, s, _ := intInfo(instr.Type())
			return norm(^x, w, s)
		case *Term:
			_, sg, _ := intInfo(instr.Type())
			return in.simpInt(in.tab.BNot(x), sg)
		}
	}
	panic(cut("unop %v on %T", instr.Op, x))
}

func (in *Interp) simpInt(t *Term, signed bool) value {
	if c, ok := in.tab.cval(t); ok {
		if signed {
			return sext(c, t.w)
		}
		return int64(c)
	}
	return t
}

func (in *Interp) simpBool(t *Term) value {
	if c, ok := in.tab.cval(t); ok {
		return c == 1
	}
	return t
}

// mapSymbolic reports whether finding k in m needs comparisons of symbolic strings.
func (in *Interp) mapSymbolic(m *hmap, k value) bool {
	if m == nil {
		return false
	}
	if _, sym := k.(*symStr); sym {
		return true
	}
	_, isStr := k.(string)
	return isStr && m.nsym > 0
}

// mapFind returns the index of the entry whose string key equals k, forking on every
// comparison that involves symbolic bytes; -1 when there is none.
func (in *Interp) mapFind(m *hmap, k value) int {
	if m == nil {
		return -1
	}
	if ks, conc := k.(string); conc {
		if i, ok := m.index[ks]; ok {
			return i
		}
	}
	n := strLen(k)
	for i, e := range m.entries {
		_, kSym := k.(*symStr)
		_, eSym := e.k.(*symStr)
		if !kSym && !eSym {
			continue // two concrete keys: the index has answered
		}
		switch e.k.(type) {
		case string, *symStr:
		default:
			continue
		}
		if strLen(e.k) != n {
			continue
		}
		if in.truth(in.simpBool(in.strEq(e.k, k))) {
			return i
		}
	}
	return -1
}

func (in *Interp) strEq(a, b value) *Term {
	if isOpaqueStr(a) || isOpaqueStr(b) {
		panic(cut("opaque-string-compared"))
	}
	ba, bb := strBytes(a), strBytes(b)
	if len(ba) != len(bb) {
		return in.tab.Bool(false)
	}
	res := in.tab.Bool(true)
	for i := range ba {
		res = in.tab.And(res, in.tab.Eq(in.intTerm(ba[i], 8), in.intTerm(bb[i], 8)))
		if res.isFalse() {
			return res
		}
	}
	return res
}

// strLess is bytewise lexicographic a < b.
func (in *Interp) strLess(a, b value, orEq bool) *Term {
	ba, bb := strBytes(a), strBytes(b)
	var rec func(i int) *Term
	rec = func(i int) *Term {
		if i == len(ba) && i == len(bb) {
			return in.tab.Bool(orEq)
		}
		if i == len(ba) {
			return in.tab.Bool(true)
		}
		if i == len(bb) {
			return in.tab.Bool(false)
		}
		x, y := in.intTerm(ba[i], 8), in.intTerm(bb[i], 8)
		lt := in.tab.Ult(x, y)
		if lt.isTrue() {
			return lt
		}
		eq := in.tab.Eq(x, y)
		if eq.isFalse() {
			return lt
		}
		return in.tab.Or(lt, in.tab.And(eq, rec(i+1)))
	}
	return rec(0)
}

func (in *Interp) binop(op token.Token, t types.Type, x, y value) value {
	// strings
	if isString(t) {
		switch op {
		case token.ADD:
			return strConcat(x, y)
		case token.EQL:
			if sx, ok := x.(string); ok {
				if sy, ok := y.(string); ok {
					return sx == sy
				}
			}
			return in.simpBool(in.strEq(x, y))
		case token.NEQ:
			if sx, ok := x.(string); ok {
				if sy, ok := y.(string); ok {
					return sx != sy
				}
			}
			return in.simpBool(in.tab.Not(in.strEq(x, y)))
		case token.LSS:
			return in.simpBool(in.strLess(x, y, false))
		case token.LEQ:
			return in.simpBool(in.strLess(x, y, true))
		case token.GTR:
			return in.simpBool(in.strLess(y, x, false))
		case token.GEQ:
			return in.simpBool(in.strLess(y, x, true))
		}
	}
	// integers
	if w, signed, ok := intInfo(t); ok {
		xi, xc := x.(int64)
		yi, yc := y.(int64)
		if xc && yc {
			return in.intBinopConc(op, w, signed, xi, yi)
		}
		// shifts may have a differently typed right operand
		var xt, yt *Term
		xt = in.intTerm(x, w)
		if yc {
			yt = in.tab.Const(w, uint64(yi))
		} else {
			yt = y.(*Term)
			if yt.w != w {
				if op == token.SHL || op == token.SHR {
					if yt.w < w {
						yt = in.tab.ZExt(yt, w)
					} else {
						// wider shift count: saturate
						big := in.tab.Ult(in.tab.Const(yt.w, uint64(w)), yt)
						yt = in.tab.Ite(big, in.tab.Const(w, uint64(w)), in.tab.Extract(yt, w-1, 0))
					}
				} else {
					panic(engineErr("binop %v width mismatch %d %d", op, w, yt.w))
				}
			}
		}
		tt := in.tab
		switch op {
		case token.ADD:
			return in.simpInt(tt.Bin(OAdd, xt, yt), signed)
		case token.SUB:
			return in.simpInt(tt.Bin(OSub, xt, yt), signed)
		case token.MUL:
			return in.simpInt(tt.Bin(OMul, xt, yt), signed)
		case token.QUO, token.REM:
			if !in.truth(in.simpBool(tt.Not(tt.Eq(yt, tt.Const(w, 0))))) {
				in.targetPanic("runtime error: integer divide by zero")
			}
			o := OUDiv
			if op == token.REM {
				o = OURem
			}
			if signed {
				o = OSDiv
				if op == token.REM {
					o = OSRem
				}
			}
			return in.simpInt(tt.Bin(o, xt, yt), signed)
		case token.AND:
			return in.simpInt(tt.Bin(OBAnd, xt, yt), signed)
		case token.OR:
			return in.simpInt(tt.Bin(OBOr, xt, yt), signed)
		case token.XOR:
			return in.simpInt(tt.Bin(OBXor, xt, yt), signed)
		case token.AND_NOT:
			return in.simpInt(tt.Bin(OBAnd, xt, tt.BNot(yt)), signed)
		case token.SHL:
			return in.simpInt(tt.Bin(OShl, xt, yt), signed)
		case token.SHR:
			if signed {
				return in.simpInt(tt.Bin(OAShr, xt, yt), signed)
			}
			return in.simpInt(tt.Bin(OLShr, xt, yt), signed)
		case token.EQL:
			return in.simpBool(tt.Eq(xt, yt))
		case token.NEQ:
			return in.simpBool(tt.Not(tt.Eq(xt, yt)))
		case token.LSS:
			if signed {
				return in.simpBool(tt.Slt(xt, yt))
			}
			return in.simpBool(tt.Ult(xt, yt))
		case token.LEQ:
			if signed {
				return in.simpBool(tt.Sle(xt, yt))
			}
			return in.simpBool(tt.Ule(xt, yt))
		case token.GTR:
			if signed {
				return in.simpBool(tt.Slt(yt, xt))
			}
			return in.simpBool(tt.Ult(yt, xt))
		case token.GEQ:
			if signed {
				return in.simpBool(tt.Sle(yt, xt))
			}
			return in.simpBool(tt.Ule(yt, xt))
		}
		panic(cut("int binop %v", op))
	}
	if isBoolT(t) {
		xb, xc := x.(bool)
		yb, yc := y.(bool)
		if xc && yc {
			switch op {
			case token.EQL:
				return xb == yb
			case token.NEQ:
				return xb != yb
			}
		}
		e := in.tab.Eq(in.boolTerm(x), in.boolTerm(y))
		switch op {
		case token.EQL:
			return in.simpBool(e)
		case token.NEQ:
			return in.simpBool(in.tab.Not(e))
		}
	}
	if isFloat(t) {
		return in.floatBinop(op, x, y)
	}
	// reference-like comparisons
	switch op {
	case token.EQL:
		return in.refEq(t, x, y)
	case token.NEQ:
		r := in.refEq(t, x, y)
		if b, ok := r.(bool); ok {
			return !b
		}
		return in.simpBool(in.tab.Not(r.(*Term)))
	}
	panic(cut("binop %v on %T,%T (%v)", op, x, y, t))
}

func (in *Interp) intBinopConc(op token.Token, w int, signed bool, x, y int64) value {
	ux, uy := uint64(x)&mask(w), uint64(y)&mask(w)
	switch op {
	case token.ADD:
		return norm(x+y, w, signed)
	case token.SUB:
		return norm(x-y, w, signed)
	case token.MUL:
		return norm(x*y, w, signed)
	case token.QUO:
		if y == 0 {
			in.targetPanic("runtime error: integer divide by zero")
		}
		if signed {
			if y == -1 {
				return norm(-x, w, signed)
			}
			return norm(x/y, w, signed)
		}
		return norm(int64(ux/uy), w, signed)
	case token.REM:
		if y == 0 {
			in.targetPanic("runtime error: integer divide by zero")
		}
		if signed {
			if y == -1 {
				return int64(0)
			}
			return norm(x%y, w, signed)
		}
		return norm(int64(ux%uy), w, signed)
	case token.AND:
		return norm(x&y, w, signed)
	case token.OR:
		return norm(x|y, w, signed)
	case token.XOR:
		return norm(x^y, w, signed)
	case token.AND_NOT:
		return norm(x&^y, w, signed)
	case token.SHL:
		// y is the shift count (unsigned semantics; its own type may differ but is normalised)
		if uint64(y) >= uint64(w) {
			return int64(0)
		}
		return norm(int64(ux<<uint64(y)), w, signed)
	case token.SHR:
		if uint64(y) >= uint64(w) {
			if signed && x < 0 {
				return int64(-1)
			}
			return int64(0)
		}
		if signed {
			return norm(x>>uint64(y), w, signed)
		}
		return norm(int64(ux>>uint64(y)), w, signed)
	case token.EQL:
		return x == y
	case token.NEQ:
		return x != y
	case token.LSS:
		if signed {
			return x < y
		}
		return ux < uy
	case token.LEQ:
		if signed {
			return x <= y
		}
		return ux <= uy
	case token.GTR:
		if signed {
			return x > y
		}
		return ux > uy
	case token.GEQ:
		if signed {
			return x >= y
		}
		return ux >= uy
	}
	panic(cut("int binop %v", op))
}

func (in *Interp) floatBinop(op token.Token, x, y value) value {
	xf, xc := x.(float64)
	yf, yc := y.(float64)
	if xc && yc {
		switch op {
		case token.ADD:
			return xf + yf
		case token.SUB:
			return xf - yf
		case token.MUL:
			return xf * yf
		case token.QUO:
			return xf / yf
		case token.EQL:
			return xf == yf
		case token.NEQ:
			return xf != yf
		case token.LSS:
			return xf < yf
		case token.LEQ:
			return xf <= yf
		case token.GTR:
			return xf > yf
		case token.GEQ:
			return xf >= yf
		}
	}
	// comparisons between an integer-valued symbolic float and an integral constant (or another one)
	asTerm := func(v value) (*Term, bool) {
		switch v := v.(type) {
		case intFloat:
			return v.t, true
		case float64:
			if v == math.Trunc(v) && math.Abs(v) < 1e15 {
				return in.tab.Const(64, uint64(int64(v))), true
			}
		}
		return nil, false
	}
	// an integer-valued symbolic float against an arbitrary constant: move the constant to the
	// neighbouring integer (t < c <=> t < ceil(c), t <= c <=> t <= floor(c), ...)
	if xi, isI := x.(intFloat); isI {
		if c, isC := y.(float64); isC && c != math.Trunc(c) || isC && math.Abs(c) >= 1e15 {
			if r, ok := in.intFloatVsConst(op, xi.t, c); ok {
				return r
			}
		}
	}
	if yi, isI := y.(intFloat); isI {
		if c, isC := x.(float64); isC && c != math.Trunc(c) || isC && math.Abs(c) >= 1e15 {
			flip := map[token.Token]token.Token{token.LSS: token.GTR, token.GTR: token.LSS, token.LEQ: token.GEQ, token.GEQ: token.LEQ, token.EQL: token.EQL, token.NEQ: token.NEQ}
			if f, has := flip[op]; has {
				if r, ok := in.intFloatVsConst(f, yi.t, c); ok {
					return r
				}
			}
		}
	}
	xt, ok1 := asTerm(x)
	yt, ok2 := asTerm(y)
	if ok1 && ok2 {
		tt := in.tab
		switch op {
		case token.EQL:
			return in.simpBool(tt.Eq(xt, yt))
		case token.NEQ:
			return in.simpBool(tt.Not(tt.Eq(xt, yt)))
		case token.LSS:
			return in.simpBool(tt.Slt(xt, yt))
		case token.LEQ:
			return in.simpBool(tt.Sle(xt, yt))
		case token.GTR:
			return in.simpBool(tt.Slt(yt, xt))
		case token.GEQ:
			return in.simpBool(tt.Sle(yt, xt))
		}
	}
	panic(cut("float-op-on-symbolic %v", op))
}

// intFloatVsConst decides t op c for an integer term t and a float constant c.
func (in *Interp) intFloatVsConst(op token.Token, t *Term, c float64) (value, bool) {
	if c != c {
		return op == token.NEQ, true
	}
	const lim = 9.2e18
	if c >= lim || c <= -lim {
		big := c > 0
		switch op {
		case token.LSS, token.LEQ:
			return big, true
		case token.GTR, token.GEQ:
			return !big, true
		case token.EQL:
			return false, true
		case token.NEQ:
			return true, true
		}
		return nil, false
	}
	fl, ce := math.Floor(c), math.Ceil(c)
	tt := in.tab
	k := func(f float64) *Term { return tt.Const(64, uint64(int64(f))) }
	switch op {
	case token.LSS:
		return in.simpBool(tt.Slt(t, k(ce))), true
	case token.LEQ:
		return in.simpBool(tt.Sle(t, k(fl))), true
	case token.GTR:
		return in.simpBool(tt.Slt(k(fl), t)), true
	case token.GEQ:
		return in.simpBool(tt.Sle(k(ce), t)), true
	case token.EQL:
		if fl != ce {
			return false, true
		}
		return in.simpBool(tt.Eq(t, k(fl))), true
	case token.NEQ:
		if fl != ce {
			return true, true
		}
		return in.simpBool(tt.Not(tt.Eq(t, k(fl)))), true
	}
	return nil, false
}

// refEq compares pointers, interfaces, funcs, maps, slices (against nil), structs, arrays.
func (in *Interp) refEq(t types.Type, x, y value) value {
	switch xv := x.(type) {
	case *value:
		if yv, ok := y.(*value); ok {
			return xv == yv
		}
		if _, ok := y.(*symPtr); ok {
			return false
		}
	case *symPtr:
		if yv, ok := y.(*value); ok && yv == nil {
			return false
		}
		panic(cut("compare symbolic pointers"))
	case []value:
		yv := y.([]value)
		if yv == nil {
			return xv == nil
		}
		if xv == nil {
			return false
		}
		panic(engineErr("slice comparison"))
	case *hmap:
		return xv == y.(*hmap)
	case *ssa.Function:
		if yf, ok := y.(*ssa.Function); ok {
			return xv == yf
		}
		return false
	case *closure:
		if yf, ok := y.(*ssa.Function); ok && yf == nil {
			return false
		}
		return x == y
	case opaque:
		return false
	case iface:
		yv, ok := y.(iface)
		if !ok {
			panic(engineErr("iface compared with %T", y))
		}
		if xv.t == nil || yv.t == nil {
			return xv.t == nil && yv.t == nil
		}
		if !types.Identical(xv.t, yv.t) {
			return false
		}
		return in.binop(token.EQL, xv.t, xv.v, yv.v)
	case structure:
		yv := y.(structure)
		st := t.Underlying().(*types.Struct)
		res := in.tab.Bool(true)
		for i := range xv {
			if st.Field(i).Name() == "_" {
				continue
			}
			r := in.binop(token.EQL, st.Field(i).Type(), xv[i], yv[i])
			res = in.tab.And(res, in.boolTerm(r))
		}
		return in.simpBool(res)
	case array:
		yv := y.(array)
		et := t.Underlying().(*types.Array).Elem()
		res := in.tab.Bool(true)
		for i := range xv {
			r := in.binop(token.EQL, et, xv[i], yv[i])
			res = in.tab.And(res, in.boolTerm(r))
		}
		return in.simpBool(res)
	}
	panic(cut("equality on %T,%T", x, y))
}

func (in *Interp) conv(tdst, tsrc types.Type, x value) value {
	ud, us := tdst.Underlying(), tsrc.Underlying()
	// integer -> ...
	if ws, ss, ok := intInfo(us); ok {
		if wd, sd, ok := intInfo(ud); ok {
			switch xv := x.(type) {
			case int64:
				return norm(xv, wd, sd)
			case *Term:
				var r *Term
				switch {
				case wd == ws:
					r = xv
				case wd < ws:
					r = in.tab.Extract(xv, wd-1, 0)
				case ss:
					r = in.tab.SExt(xv, wd)
				default:
					r = in.tab.ZExt(xv, wd)
				}
				return in.simpInt(r, sd)
			}
		}
		if isFloat(ud) {
			switch xv := x.(type) {
			case int64:
				if ss {
					return float64(xv)
				}
				return float64(uint64(xv))
			case *Term:
				if ss {
					return intFloat{in.tab.SExt(xv, 64)}
				}
				if ws < 64 {
					return intFloat{in.tab.ZExt(xv, 64)}
				}
				panic(cut("uint64-to-float-symbolic"))
			}
		}
		if isString(ud) {
			switch xv := x.(type) {
			case int64:
				return string(rune(xv))
			case *Term:
				return &symStr{opaque: true}
			}
		}
	}
	if isFloat(us) {
		if wd, sd, ok := intInfo(ud); ok {
			switch xv := x.(type) {
			case float64:
				if sd {
					return norm(int64(xv), wd, true)
				}
				return norm(int64(uint64(xv)), wd, false)
			case intFloat:
				if wd == 64 {
					return in.simpInt(xv.t, sd)
				}
				return in.simpInt(in.tab.Extract(xv.t, wd-1, 0), sd)
			}
		}
		if isFloat(ud) {
			if b := ud.(*types.Basic); b.Kind() == types.Float32 {
				if f, ok := x.(float64); ok {
					return float64(float32(f))
				}
				panic(cut("float32-symbolic"))
			}
			return x
		}
	}
	if isString(us) {
		if isString(ud) {
			return x
		}
		if sl, ok := ud.(*types.Slice); ok {
			if w, _, ok := intInfo(sl.Elem()); ok && w == 8 {
				b := strBytes(x)
				out := make([]value, len(b))
				copy(out, b)
				return out
			}
			// []rune(string)
			if s, ok := x.(string); ok {
				rs := []rune(s)
				out := make([]value, len(rs))
				for i, r := range rs {
					out[i] = int64(r)
				}
				return out
			}
			panic(cut("[]rune of symbolic string"))
		}
	}
	if sl, ok := us.(*types.Slice); ok && isString(ud) {
		if w, _, ok := intInfo(sl.Elem()); ok && w == 8 {
			return mkStr(x.([]value))
		}
		xs := x.([]value)
		rs := make([]rune, len(xs))
		for i, e := range xs {
			c, ok := e.(int64)
			if !ok {
				panic(cut("string of symbolic []rune"))
			}
			rs[i] = rune(c)
		}
		return string(rs)
	}
	if _, ok := ud.(*types.Pointer); ok {
		return x
	}
	if b, ok := ud.(*types.Basic); ok && b.Kind() == types.UnsafePointer {
		in.noteNondet("unsafe.Pointer conversion")
		panic(cut("unsafe-pointer"))
	}
	panic(cut("conversion %v -> %v", tsrc, tdst))
}
