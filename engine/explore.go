package main

// Exploration: forking by re-execution. A work item is a decision prefix plus a model that
// satisfies the path condition of that prefix; a worker re-runs the harness from its entry,
// replays the prefix without solver calls and decides every new branch with one query for the
// side the model does not take.

import (
	"fmt"
	"go/types"
	"sort"
	"strings"
	"sync"
	"sync/atomic"
	"time"

	"golang.org/x/tools/go/ssa"
)

type workItem struct {
	prefix []int32
	model  map[string]uint64
}

type inputRec struct {
	t *Term // symbolic input (nil for a concrete choice)
	c int64
	n string
}

type Candidate struct {
	Harness   string
	Assertion string
	Site      string
	Tags      []string
	Vals      []int64
	Text      string // human readable inputs
	Msg       string
}

func (c *Candidate) key() string {
	return c.Assertion + "|" + c.Site + "|" + strings.Join(c.Tags, ",")
}

type Interp struct {
	prog        *ssa.Program
	ex          *Explorer
	tab         *TermTab
	solver      *Solver
	model       *Model
	prefix      []int32
	decs        []int32
	pos         int
	inputs      []inputRec
	names       map[string]int
	globals     map[*ssa.Global]*value
	copied      map[interface{}]interface{}
	stack       []*ssa.Function
	depth       int
	steps       int64
	budget      int64
	tags        []string
	reach       map[string]int
	obsVals     []obsRec
	cov         map[*ssa.BasicBlock]struct{}
	nondet      []string
	epoch       bool
	snaps       []snapshot
	params      map[string]int64
	asserts     map[string]*assertStat
	harness     string
	inconcl     bool
	newCands    []*Candidate
	assumeKills int
	boot        bool
	ds          *domState
	recheck     bool
	noSummaries bool
	errT        types.Type
	numErrT     types.Type
}

type assertStat struct {
	Checked  int `json:"checked"`
	Violated int `json:"violated"`
}

type Explorer struct {
	prog       *ssa.Program
	harness    string
	entry      *ssa.Function
	params     map[string]int64
	workers    int
	solverK    string
	budget     int64
	maxPaths   int64
	assumeOnly map[string]bool // when set, only these assertions are assumed to hold after they were checked
	deadline   time.Time

	mu      sync.Mutex
	cond    *sync.Cond
	work    []workItem
	active  int
	stopped bool

	// results (under mu)
	Paths        int64
	Ends         map[string]int64
	Cuts         map[string]int64
	Reach        map[string]int64
	Asserts      map[string]*assertStat
	Decisions    int64
	Steps        int64
	Queries      int64
	UnsatN       int64
	SatN         int64
	UnkN         int64
	SolverTime   time.Duration
	Cands        map[string][]*Candidate // by key
	Samples      []string
	Nondet       map[string]int64
	Cov          map[*ssa.BasicBlock]struct{}
	TraceVecs    [][]int64 // vectors kept for trace validation
	TraceObs     [][]string
	CutVecs      [][]int64 // one concrete representative per cut path, replayed natively for its assertions only
	EngineErrs   map[string]int64
	Truncated    bool
	AssumeKills  int64
	initG        *globalsInit
	traceEvery   int64
	domForks     atomic.Int64
	domDecided   atomic.Int64
	domRechecked atomic.Int64
	recheckEvery int64
	pathSeq      atomic.Int64
	seed         int64
}

func NewExplorer(prog *ssa.Program, entry *ssa.Function, harness string, params map[string]int64, workers int) *Explorer {
	ex := &Explorer{prog: prog, harness: harness, entry: entry, params: params, workers: workers, solverK: envOr("VERIF_SOLVER", "z3-new"),
		budget: 3_000_000, Ends: map[string]int64{}, Cuts: map[string]int64{}, Reach: map[string]int64{},
		Asserts: map[string]*assertStat{}, Cands: map[string][]*Candidate{}, Nondet: map[string]int64{},
		Cov: map[*ssa.BasicBlock]struct{}{}, EngineErrs: map[string]int64{}, traceEvery: 1, recheckEvery: 8}
	ex.cond = sync.NewCond(&ex.mu)
	return ex
}

func (ex *Explorer) push(it workItem) {
	ex.mu.Lock()
	ex.work = append(ex.work, it)
	ex.mu.Unlock()
	ex.cond.Signal()
}

func (ex *Explorer) pop() (workItem, bool) {
	ex.mu.Lock()
	defer ex.mu.Unlock()
	for {
		if ex.stopped {
			return workItem{}, false
		}
		if n := len(ex.work); n > 0 {
			it := ex.work[n-1] // depth first keeps the work list small
			ex.work = ex.work[:n-1]
			ex.active++
			return it, true
		}
		if ex.active == 0 {
			ex.cond.Broadcast()
			return workItem{}, false
		}
		ex.cond.Wait()
	}
}

func (ex *Explorer) done() {
	ex.mu.Lock()
	ex.active--
	if ex.active == 0 && len(ex.work) == 0 {
		ex.cond.Broadcast()
	}
	ex.mu.Unlock()
}

// Run explores the harness to completion (or until the path/time cap, which is reported).
func (ex *Explorer) Run() error {
	ex.initG = bootGlobals(ex.prog)
	ex.push(workItem{})
	var wg sync.WaitGroup
	errs := make(chan error, ex.workers)
	for w := 0; w < ex.workers; w++ {
		wg.Add(1)
		go func() {
			defer wg.Done()
			s, err := acquireSolver(ex.solverK)
			if err != nil {
				errs <- err
				ex.mu.Lock()
				ex.stopped = true
				ex.mu.Unlock()
				ex.cond.Broadcast()
				return
			}
			q0, u0, s0, k0, t0 := s.Queries, s.UnsatN, s.SatN, s.UnkN, s.Time
			defer releaseSolver(s)
			for {
				it, ok := ex.pop()
				if !ok {
					break
				}
				ex.runPath(s, it)
				ex.done()
			}
			ex.mu.Lock()
			ex.Queries += int64(s.Queries - q0)
			ex.UnsatN += int64(s.UnsatN - u0)
			ex.SatN += int64(s.SatN - s0)
			ex.UnkN += int64(s.UnkN - k0)
			ex.SolverTime += s.Time - t0
			ex.mu.Unlock()
		}()
	}
	wg.Wait()
	select {
	case err := <-errs:
		return err
	default:
	}
	return nil
}

func (ex *Explorer) runPath(s *Solver, it workItem) {
	in := &Interp{prog: ex.prog, ex: ex, tab: NewTermTab(), solver: s, model: NewModel(it.model), prefix: it.prefix,
		names: map[string]int{}, globals: map[*ssa.Global]*value{}, copied: map[interface{}]interface{}{},
		budget: ex.budget, reach: map[string]int{}, cov: map[*ssa.BasicBlock]struct{}{}, params: ex.params,
		asserts: map[string]*assertStat{}, harness: ex.harness, ds: newDomState()}
	if ex.recheckEvery > 0 && ex.pathSeq.Add(1)%ex.recheckEvery == 0 {
		in.recheck = true
	}
	s.BeginPath()
	end := in.execute(ex.entry)
	s.EndPath()

	// C14 monitor W: globals of the module must be unchanged at the end of the path
	if end.kind == endReturn || end.kind == endPanic {
		in.checkGlobalsUnchanged()
	}

	if in.epoch {
		in.stat("no-nondeterminism-source").Checked++
	}
	if end.kind == endBudget {
		st := in.stat("terminates-within-budget")
		st.Checked++
		st.Violated++
		in.candidate("terminates-within-budget", end.msg, "", in.model)
	} else if end.kind == endReturn {
		in.stat("terminates-within-budget").Checked++
	}
	vec := in.vector()
	ex.mu.Lock()
	defer ex.mu.Unlock()
	ex.Paths++
	ex.Decisions += int64(len(in.decs))
	ex.Steps += in.steps
	ex.AssumeKills += int64(in.assumeKills)
	if end.kind == endReturn {
		a := ex.Asserts["no-panic"]
		if a == nil {
			a = &assertStat{}
			ex.Asserts["no-panic"] = a
		}
		a.Checked++
	}
	kind := [...]string{"return", "panic", "cut", "assume-fail", "budget", "inconclusive", "engine-error"}[end.kind]
	ex.Ends[kind]++
	switch end.kind {
	case endCut:
		ex.Cuts[end.msg]++
	case endEngine:
		ex.EngineErrs[end.msg]++
	case endBudget:
		ex.Cuts["unwinding-failure: "+end.msg]++
	case endInconclusive:
		ex.Cuts["inconclusive: "+end.msg]++
	}
	for k, v := range in.reach {
		ex.Reach[k] += int64(v)
	}
	for k, v := range in.asserts {
		a := ex.Asserts[k]
		if a == nil {
			a = &assertStat{}
			ex.Asserts[k] = a
		}
		a.Checked += v.Checked
		a.Violated += v.Violated
	}
	for _, n := range in.nondet {
		ex.Nondet[n]++
	}
	for b := range in.cov {
		ex.Cov[b] = struct{}{}
	}
	for _, c := range in.newCands {
		k := c.key()
		if len(ex.Cands[k]) < 3 {
			ex.Cands[k] = append(ex.Cands[k], c)
		}
	}
	if (end.kind == endCut || end.kind == endEngine || end.kind == endInconclusive) && len(ex.CutVecs) < 3000 {
		ex.CutVecs = append(ex.CutVecs, vec)
	}
	if end.kind == endReturn || end.kind == endPanic {
		if len(ex.Samples) < 12 || (ex.Paths%97 == 0 && len(ex.Samples) < 40) {
			ex.Samples = append(ex.Samples, in.describe(vec))
		}
		if ex.traceEvery > 0 && ex.Paths%ex.traceEvery == 0 && len(ex.TraceVecs) < 4000 {
			ex.TraceVecs = append(ex.TraceVecs, vec)
			obs := append([]string{}, in.obsUnderModel()...)
			if end.kind == endPanic {
				obs = append(obs, "PANIC")
			} else {
				obs = append(obs, "END")
			}
			ex.TraceObs = append(ex.TraceObs, obs)
		}
	}
	if ex.maxPaths > 0 && ex.Paths >= ex.maxPaths || (!ex.deadline.IsZero() && time.Now().After(ex.deadline)) {
		if len(ex.work) > 0 || ex.active > 1 {
			ex.Truncated = true
		}
		ex.stopped = true
		ex.cond.Broadcast()
	}
}

// execute runs the harness entry and classifies how the path ended.
func (in *Interp) execute(entry *ssa.Function) (end *pathEnd) {
	defer func() {
		if r := recover(); r != nil {
			switch r := r.(type) {
			case *pathEnd:
				end = r
				if r.kind == endPanic {
					in.onTargetPanic(r)
				}
			case *engineError:
				end = &pathEnd{kind: endEngine, msg: r.msg}
			default:
				site := ""
				if len(in.stack) > 0 {
					site = in.stack[len(in.stack)-1].String()
				}
				end = &pathEnd{kind: endEngine, msg: fmt.Sprintf("%v in %s", r, site)}
			}
		}
	}()
	in.callSSA(entry, nil, nil)
	return &pathEnd{kind: endReturn}
}

// ---------------------------------------------------------------------------------------------
// decisions

func (in *Interp) replaying() bool { return in.pos < len(in.prefix) }

func (in *Interp) pin(c *Term, v bool) {
	var k uint64
	if v {
		k = 1
	}
	in.tab.pins[c.id] = k
	switch c.op {
	case ONot:
		in.pin(c.a, !v)
	case OAnd:
		if v {
			in.pin(c.a, true)
			in.pin(c.b, true)
		}
	case OOr:
		if !v {
			in.pin(c.a, false)
			in.pin(c.b, false)
		}
	case OEq:
		if v && c.a.w > 0 {
			if kb, ok := in.tab.cval(c.b); ok {
				in.tab.pins[c.a.id] = kb
			} else if ka, ok := in.tab.cval(c.a); ok {
				in.tab.pins[c.b.id] = ka
			}
		}
	}
}

// take adds c (or its negation) to the path condition. Conditions over one byte variable only
// refine that variable's value set; the rest is queued for the solver.
func (in *Interp) take(c *Term, v bool) {
	cond := c
	if !v {
		cond = in.tab.Not(c)
	}
	if in.boot {
		return
	}
	if domainMode != "off" {
		if x, k := in.support(c); k == 1 {
			T := in.truthSet(c, x)
			D := in.domOf(x)
			var nd bset
			if v {
				nd = D.and(T)
			} else {
				nd = D.andNot(T)
			}
			if nd != D {
				in.setDom(x, nd)
			}
			in.pin(c, v)
			return
		}
	}
	in.markNonFree(cond, map[int]bool{})
	in.ds.pending = append(in.ds.pending, cond)
	in.pin(c, v)
}

// branch decides a symbolic condition.
func (in *Interp) branch(c *Term) bool {
	if v, ok := in.tab.cval(c); ok {
		return v == 1
	}
	dv := in.domLook(c)
	if dv.decided {
		in.pin(c, dv.value)
		return dv.value
	}
	if in.replaying() {
		d := in.prefix[in.pos] == 1
		in.pos++
		in.decs = append(in.decs, in.prefix[in.pos-1])
		in.take(c, d)
		return d
	}
	v := in.model.Eval(c) == 1
	if dv.single && dv.free && domainMode != "check" && !in.recheck {
		// both sides possible and the variable is unconstrained otherwise: patch the model
		m := make(map[string]uint64, len(in.model.vals))
		for k, x := range in.model.vals {
			m[k] = x
		}
		if v {
			m[dv.x.name] = uint64(dv.f.first())
		} else {
			m[dv.x.name] = uint64(dv.t.first())
		}
		in.ex.domForks.Add(1)
		in.pushOther(v, m)
	} else {
		other := c
		if v {
			other = in.tab.Not(c)
		}
		verdict, m := in.check(other, true)
		switch verdict {
		case Sat:
			in.pushOther(v, m)
		case Unknown:
			in.ex.noteInconclusive("branch in " + in.where())
		}
	}
	if v {
		in.decs = append(in.decs, 1)
	} else {
		in.decs = append(in.decs, 0)
	}
	in.pos++
	in.take(c, v)
	return v
}

func (in *Interp) pushOther(v bool, m map[string]uint64) {
	pre := make([]int32, len(in.decs)+1)
	copy(pre, in.decs)
	if v {
		pre[len(in.decs)] = 0
	} else {
		pre[len(in.decs)] = 1
	}
	in.ex.push(workItem{prefix: pre, model: m})
}

func (ex *Explorer) noteInconclusive(msg string) {
	ex.mu.Lock()
	ex.Cuts["inconclusive-side-dropped: "+msg]++
	ex.mu.Unlock()
}

func (in *Interp) where() string {
	if len(in.stack) == 0 {
		return "?"
	}
	return in.stack[len(in.stack)-1].String()
}

// choose is an n-way concrete choice (rtChoose / rtLen).
func (in *Interp) choose(n int) int {
	if n <= 1 {
		return 0
	}
	if in.replaying() {
		d := in.prefix[in.pos]
		in.pos++
		in.decs = append(in.decs, d)
		return int(d)
	}
	for alt := n - 1; alt >= 1; alt-- {
		pre := make([]int32, len(in.decs)+1)
		copy(pre, in.decs)
		pre[len(in.decs)] = int32(alt)
		in.ex.push(workItem{prefix: pre, model: in.model.vals})
	}
	in.decs = append(in.decs, 0)
	in.pos++
	return 0
}

// concretize forks over the feasible values of a term (used for lengths and the like).
func (in *Interp) concretize(t *Term, what string) int64 {
	if in.replaying() {
		d := in.prefix[in.pos]
		in.pos++
		in.decs = append(in.decs, d)
		val := in.tab.Const(t.w, uint64(int64(d)))
		in.take(in.tab.Eq(t, val), true)
		return int64(d)
	}
	v := in.model.Eval(t)
	sv := sext(v, t.w)
	if sv > 1<<30 || sv < -(1<<30) {
		panic(cut("concretize-%s-large", what))
	}
	// enumerate other feasible values (bounded); exclusions accumulate in one condition
	excl := in.tab.Not(in.tab.Eq(t, in.tab.Const(t.w, v)))
	seen := 1
	for {
		verdict, m := in.check(excl, true)
		if verdict != Sat {
			if verdict == Unknown {
				in.ex.noteInconclusive("concretize " + what)
			}
			break
		}
		mm := NewModel(m)
		ov := mm.Eval(t)
		osv := sext(ov, t.w)
		if osv > 1<<30 || osv < -(1<<30) || seen >= 64 {
			in.ex.mu.Lock()
			in.ex.Cuts["concretize-"+what+"-too-many-values"]++
			in.ex.mu.Unlock()
			break
		}
		pre := make([]int32, len(in.decs)+1)
		copy(pre, in.decs)
		pre[len(in.decs)] = int32(osv)
		in.ex.push(workItem{prefix: pre, model: m})
		seen++
		excl = in.tab.mk(OAnd, 0, excl, in.tab.Not(in.tab.Eq(t, in.tab.Const(t.w, ov))), nil, 0, 0, "")
	}
	in.decs = append(in.decs, int32(sv))
	in.pos++
	in.take(in.tab.Eq(t, in.tab.Const(t.w, v)), true)
	return sv
}

// ---------------------------------------------------------------------------------------------
// inputs, vectors, descriptions

func (in *Interp) freshName(n string) string {
	c := in.names[n]
	in.names[n] = c + 1
	return fmt.Sprintf("%s.%d", n, c)
}

func (in *Interp) newInput(name string, w int) *Term {
	t := in.tab.Var(in.freshName(name), w)
	in.inputs = append(in.inputs, inputRec{t: t, n: name})
	return t
}

func (in *Interp) vector() []int64 {
	out := make([]int64, len(in.inputs))
	for i, r := range in.inputs {
		if r.t != nil {
			v := in.model.Eval(r.t)
			if r.t.w == 64 {
				out[i] = int64(v)
			} else {
				out[i] = int64(v)
			}
		} else {
			out[i] = r.c
		}
	}
	return out
}

func (in *Interp) vectorUnder(m *Model) []int64 {
	out := make([]int64, len(in.inputs))
	for i, r := range in.inputs {
		if r.t != nil {
			out[i] = int64(m.Eval(r.t))
		} else {
			out[i] = r.c
		}
	}
	return out
}

// describe renders the inputs grouped by name, bytes as a quoted string.
func (in *Interp) describe(vec []int64) string {
	return describeInputs(in.inputs, vec)
}

func describeInputs(inputs []inputRec, vec []int64) string {
	var sb strings.Builder
	i := 0
	for i < len(inputs) {
		j := i
		for j < len(inputs) && inputs[j].n == inputs[i].n && (inputs[j].t != nil) == (inputs[i].t != nil) && (inputs[i].t == nil || inputs[j].t.w == inputs[i].t.w) {
			j++
		}
		if sb.Len() > 0 {
			sb.WriteString(" ")
		}
		if inputs[i].t != nil && inputs[i].t.w == 8 {
			bs := make([]byte, 0, j-i)
			for k := i; k < j; k++ {
				bs = append(bs, byte(vec[k]))
			}
			fmt.Fprintf(&sb, "%s=%q", inputs[i].n, string(bs))
		} else {
			fmt.Fprintf(&sb, "%s=", inputs[i].n)
			for k := i; k < j; k++ {
				if k > i {
					sb.WriteString(",")
				}
				fmt.Fprintf(&sb, "%d", vec[k])
			}
		}
		i = j
	}
	return sb.String()
}

// obsUnderModel evaluates the recorded observations under the current model.
func (in *Interp) obsUnderModel() []string {
	out := make([]string, 0, len(in.obsVals))
	for _, o := range in.obsVals {
		out = append(out, o.name+"="+in.concreteString(o.v, in.model))
	}
	return out
}

type obsRec struct {
	name string
	v    value
}

// concreteString evaluates a string value under a model and renders it quoted.
func (in *Interp) concreteString(v value, m *Model) string {
	switch s := v.(type) {
	case string:
		return fmt.Sprintf("%q", s)
	case *symStr:
		if s.opaque {
			return "<opaque>"
		}
		bs := make([]byte, len(s.b))
		for i, b := range s.b {
			switch b := b.(type) {
			case int64:
				bs[i] = byte(b)
			case *Term:
				bs[i] = byte(m.Eval(b))
			}
		}
		return fmt.Sprintf("%q", string(bs))
	case int64:
		return fmt.Sprintf("%d", s)
	case bool:
		return fmt.Sprintf("%v", s)
	case *Term:
		if s.w == 0 {
			return fmt.Sprintf("%v", m.Eval(s) == 1)
		}
		return fmt.Sprintf("%d", sext(m.Eval(s), s.w))
	}
	return fmt.Sprintf("<%T>", v)
}

// ---------------------------------------------------------------------------------------------
// violations

func (in *Interp) candidate(id, msg, site string, m *Model) {
	vec := in.vectorUnder(m)
	var tags []string
	seenTag := map[string]bool{}
	for _, t := range in.tags {
		if !seenTag[t] {
			seenTag[t] = true
			tags = append(tags, t)
		}
	}
	sort.Strings(tags)
	c := &Candidate{Harness: in.harness, Assertion: id, Site: site, Tags: tags, Vals: vec, Text: describeInputs(in.inputs, vec), Msg: msg}
	in.newCands = append(in.newCands, c)
}

func (in *Interp) stat(id string) *assertStat {
	a := in.asserts[id]
	if a == nil {
		a = &assertStat{}
		in.asserts[id] = a
	}
	return a
}

func (in *Interp) onTargetPanic(r *pathEnd) {
	a := in.stat("no-panic")
	a.Checked++
	a.Violated++
	in.candidate("no-panic", r.msg, r.site, in.model)
}

func (in *Interp) noteNondet(what string) {
	if in.epoch {
		in.nondet = append(in.nondet, what)
		st := in.stat("no-nondeterminism-source")
		st.Violated++
		if len(in.nondet) == 1 {
			in.candidate("no-nondeterminism-source", what, what, in.model)
		}
	}
}
