#!/bin/sh
# usage: check.sh <property> <quick|thorough>
# Builds the engine if needed, then runs the check against /repo's current working tree.
set -u
cd "$(dirname "$0")"
export VERIF_DIR="$(pwd)"
export GOPROXY=off GOSUMDB=off GOTOOLCHAIN=local
if [ ! -x bin/vcheck ] || [ -n "$(find engine -name '*.go' -newer bin/vcheck 2>/dev/null | head -1)" ]; then
  (cd engine && GOFLAGS=-mod=mod go build -o ../bin/vcheck .) || { echo "NOTE: engine build failed"; exit 0; }
fi
exec bin/vcheck run "$1" --tier "${2:-quick}"
