#!/bin/sh
set -e
cd "$(dirname "$0")"
export GOPROXY=off GOSUMDB=off GOTOOLCHAIN=local
mkdir -p bin evidence replays
(cd engine && GOFLAGS=-mod=mod go build -o ../bin/vcheck .)
echo setup ok
