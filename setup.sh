#!/bin/sh
set -e
cd "$(dirname "$0")"
export GOPROXY=off GOSUMDB=off GOTOOLCHAIN=local
mkdir -p bin evidence replays
(cd engine && GOFLAGS=-mod=mod go build -o ../bin/vcheck .)
# PostgreSQL's own parser (pg_query_go, cgo) as referee for SQL-syntax claims; optional
(cd pgconfirm && GOFLAGS=-mod=mod go build -o ../bin/pgconfirm . 2>/dev/null) || echo "note: pgconfirm not built; SQL candidates are confirmed by the native twin only"
echo setup ok
