//go:build verif

// Package zzverif holds the verification harnesses. It is injected into the repository by
// overlay (never committed there). The rt* functions are the harness vocabulary: the symbolic
// engine intercepts them; compiled natively they read a replay vector, so the very same harness
// code re-runs a solver-found input against the natively built real code.
package zzverif

import (
	"fmt"
	"strings"
)

type rtState struct {
	vals    []int64
	pos     int
	params  map[string]int64
	out     []string
	failed  map[string]bool
}

var rts *rtState

type assumeFailed struct{}

func rtNext() int64 {
	if rts.pos >= len(rts.vals) {
		rts.pos++
		return 0
	}
	v := rts.vals[rts.pos]
	rts.pos++
	return v
}

func rtParam(name string) int {
	return int(rts.params[name]) // parameters that are not configured are 0
}

func rtByte(name string) byte { return byte(rtNext()) }

func rtBytes(name string, n int) []byte {
	out := make([]byte, n)
	for i := range out {
		out[i] = byte(rtNext())
	}
	return out
}

func rtInt(name string, lo, hi int) int {
	v := int(rtNext())
	if v < lo || v > hi {
		panic(assumeFailed{})
	}
	return v
}

func rtBool(name string) bool { return rtNext() != 0 }

func rtChoose(name string, n int) int {
	v := int(rtNext())
	if v < 0 || v >= n {
		panic(assumeFailed{})
	}
	return v
}

func rtAssume(b bool) {
	if !b {
		panic(assumeFailed{})
	}
}

func rtAssert(id string, b bool) {
	if !b && !rts.failed[id] {
		rts.failed[id] = true
		rts.out = append(rts.out, "ASSERT-FAIL "+id)
	}
}

func rtReach(id string) {}

func rtTag(s string) { rts.out = append(rts.out, "TAG "+s) }

func rtObserve(name string, v string) {
	rts.out = append(rts.out, fmt.Sprintf("OBS %s=%q", name, v))
}

func rtObserveInt(name string, v int) {
	rts.out = append(rts.out, fmt.Sprintf("OBS %s=%d", name, v))
}

func rtIn(b byte, set string) bool { return strings.IndexByte(set, b) >= 0 }
func rtOr(a, b bool) bool          { return a || b }
func rtAnd(a, b bool) bool         { return a && b }
func rtNot(a bool) bool            { return !a }
func rtEpoch()                     {}
func rtCut(reason string)          { panic(assumeFailed{}) }

// rtNative reports whether the harness runs natively (the engine answers false).
func rtNative() bool { return true }

// snapshots: natively the monitor is a deep comparison through fmt's %#v of a stable rendering
type rtSnap struct {
	v   any
	txt string
}

var rtSnaps []rtSnap

func rtSnapshot(v any) int {
	rtSnaps = append(rtSnaps, rtSnap{v, fmt.Sprintf("%#v", v)})
	return len(rtSnaps) - 1
}

func rtUnchanged(h int) bool {
	return fmt.Sprintf("%#v", rtSnaps[h].v) == rtSnaps[h].txt
}
