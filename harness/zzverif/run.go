//go:build verif

package zzverif

import (
	"bufio"
	"encoding/json"
	"fmt"
	"os"
	"runtime/debug"
	"strings"
)

var registry = map[string]func(){}

func register(name string, f func()) { registry[name] = f }

type replayReq struct {
	Mode    string           `json:"mode,omitempty"` // "" = harness replay, "race" = concurrent probe on Text
	Text    string           `json:"text,omitempty"`
	Harness string           `json:"harness"`
	Params  map[string]int64 `json:"params"`
	Vals    []int64          `json:"vals"`
}

// RunOne executes one harness on one replay vector and returns the outcome lines.
func RunOne(req replayReq) (out []string) {
	f, ok := registry[req.Harness]
	if !ok {
		return []string{"NO-SUCH-HARNESS " + req.Harness}
	}
	rts = &rtState{vals: req.Vals, params: req.Params, failed: map[string]bool{}}
	rtSnaps = nil
	defer func() {
		if r := recover(); r != nil {
			if _, isAssume := r.(assumeFailed); isAssume {
				out = append(rts.out, "ASSUME-FAIL")
				return
			}
			st := string(debug.Stack())
			site := ""
			for _, line := range strings.Split(st, "\n") {
				if strings.Contains(line, "github.com/grindlemire/go-lucene") && !strings.Contains(line, "zzverif") && strings.Contains(line, "(") && !strings.HasPrefix(line, "\t") {
					site = strings.TrimSpace(line)
					if i := strings.LastIndex(site, "("); i > 0 {
						site = site[:i]
					}
					break
				}
			}
			out = append(rts.out, fmt.Sprintf("PANIC %v @ %s", r, site))
		}
	}()
	f()
	return append(rts.out, "END")
}

// Main reads replay requests (one JSON object per line) from stdin and prints one JSON array of
// outcome lines per request.
func Main() {
	sc := bufio.NewScanner(os.Stdin)
	sc.Buffer(make([]byte, 1<<20), 1<<26)
	w := bufio.NewWriter(os.Stdout)
	defer w.Flush()
	for sc.Scan() {
		var req replayReq
		if err := json.Unmarshal(sc.Bytes(), &req); err != nil {
			fmt.Fprintf(w, "[\"BAD-REQUEST %s\"]\n", err)
			continue
		}
		if req.Mode == "race" {
			raceProbe(req.Text)
			w.WriteString("[\"RACE-PROBE-DONE\"]\n")
			w.Flush()
			continue
		}
		res := RunOne(req)
		b, _ := json.Marshal(res)
		w.Write(b)
		w.WriteByte('\n')
		w.Flush()
	}
}
