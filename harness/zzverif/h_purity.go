//go:build verif

package zzverif

import (
	"encoding/json"
	"fmt"
	"sync"

	lucene "github.com/grindlemire/go-lucene"
	"github.com/grindlemire/go-lucene/pkg/driver"
	"github.com/grindlemire/go-lucene/pkg/lucene/expr"
)

func init() {
	register("Purity", H_Purity)
	register("PurityDoc", H_PurityDoc)
}

// H_PurityDoc (C14): the same clauses on expressions only JSON (or the expr constructors) can
// build: unknown operators, powers and distances the parser never produces, members of the
// wrong kind. Decoding twice gives the same value; Validate, Render, RenderParam, String and
// Marshal leave the expression alone; what Marshal returns does not depend on the calls made
// before it; no package-level state is written (engine monitor).
func H_PurityDoc() {
	doc := jsonObject(rtParam("D"))
	rtObserve("doc", doc)
	rtEpoch()
	var d, d2 expr.Expression
	err := json.Unmarshal([]byte(doc), &d)
	err2 := json.Unmarshal([]byte(doc), &d2)
	rtAssert("decode-deterministic", errText(err) == errText(err2))
	if err != nil {
		rtReach("decode-error")
		return
	}
	g := fmt.Sprintf("%#v", &d)
	rtAssert("decode-deterministic", g == fmt.Sprintf("%#v", &d2))
	snap := rtSnapshot(&d)
	j0, jerr0 := json.Marshal(&d)
	rtAssert("unchanged-by-Marshal", rtUnchanged(snap))
	verr := expr.Validate(&d)
	rtAssert("unchanged-by-Validate", rtUnchanged(snap))
	rtAssert("validate-deterministic", errText(verr) == errText(expr.Validate(&d)))
	if verr == nil {
		s1 := d.String()
		rtAssert("unchanged-by-String", rtUnchanged(snap))
		rtAssert("string-deterministic", s1 == d.String())
		sql1, rerr1 := pg.Render(&d)
		rtAssert("unchanged-by-Render", rtUnchanged(snap))
		sql2, rerr2 := pg.Render(&d)
		rtAssert("render-deterministic", errText(rerr1) == errText(rerr2) && sql1 == sql2)
		p1, a1, perr1 := pg.RenderParam(&d)
		rtAssert("unchanged-by-RenderParam", rtUnchanged(snap))
		p2, a2, perr2 := pg.RenderParam(&d)
		rtAssert("renderparam-deterministic", errText(perr1) == errText(perr2) && p1 == p2 && sameParams(a1, a2))
	}
	j1, jerr1 := json.Marshal(&d)
	rtAssert("marshal-deterministic", errText(jerr0) == errText(jerr1) && string(j0) == string(j1))
	rtAssert("gostring-unchanged", g == fmt.Sprintf("%#v", &d))
	rtReach("end")
}

// H_Purity (C14): every entry point is a function of its arguments: a second call gives the
// same result, the shared expression is not modified by printing, validating or rendering it,
// and (engine monitors) no package-level state is written and no source of nondeterminism
// (map iteration, goroutines, channels, pointer formatting) is executed after rtEpoch().
func H_Purity() {
	var text string
	if rtParam("SRC") == 0 {
		t := genTree(rtParam("D"), allOps, leafForms())
		text = printNode(t, 0, &printOpts{})
	} else {
		text = shapeSlots(rtParam("K"))
	}
	rtObserve("text", text)
	df := rtParam("DF")
	d := driver.NewPostgresDriver() // a driver of the caller's own (its construction copies a map: not an entry point)
	rtEpoch()
	// what a call without options returns before any call with a default field has been made
	var f0, f1 *expr.Expression
	var ferr0, ferr1 error
	if df == 1 {
		f0, ferr0 = lucene.Parse(text)
	}
	e, err := parseOpt(text, df)
	e2, err2 := parseOpt(text, df)
	rtAssert("parse-deterministic", errText(err) == errText(err2))
	// ... and after: the option of one call is not remembered by the next
	if df == 1 {
		f1, ferr1 = lucene.Parse(text)
	}
	rtAssert("options-do-not-leak", errText(ferr0) == errText(ferr1) && (f0 == nil) == (f1 == nil) && (f0 == nil || fmt.Sprintf("%#v", f0) == fmt.Sprintf("%#v", f1)))
	if err != nil || e == nil || e2 == nil {
		rtReach("rejected")
		return
	}
	g := fmt.Sprintf("%#v", e)
	rtAssert("parse-deterministic", g == fmt.Sprintf("%#v", e2))
	snap := rtSnapshot(e)
	s1 := e.String()
	rtAssert("unchanged-by-String", rtUnchanged(snap))
	rtAssert("string-deterministic", s1 == e.String())
	verr := expr.Validate(e)
	rtAssert("unchanged-by-Validate", rtUnchanged(snap))
	rtAssert("validate-deterministic", errText(verr) == errText(expr.Validate(e)))
	sql1, rerr1 := pg.Render(e)
	rtAssert("unchanged-by-Render", rtUnchanged(snap))
	sql2, rerr2 := pg.Render(e)
	rtAssert("render-deterministic", errText(rerr1) == errText(rerr2) && sql1 == sql2)
	p1, a1, perr1 := pg.RenderParam(e)
	rtAssert("unchanged-by-RenderParam", rtUnchanged(snap))
	p2, a2, perr2 := pg.RenderParam(e)
	rtAssert("renderparam-deterministic", errText(perr1) == errText(perr2) && p1 == p2 && sameParams(a1, a2))
	j1, jerr1 := json.Marshal(e)
	rtAssert("unchanged-by-Marshal", rtUnchanged(snap))
	j2, jerr2 := json.Marshal(e)
	rtAssert("marshal-deterministic", errText(jerr1) == errText(jerr2) && string(j1) == string(j2))
	p3, a3, perr3 := pg.RenderParam(e)
	rtAssert("renderparam-deterministic", errText(perr1) == errText(perr3) && p1 == p3 && sameParams(a1, a3))
	rtAssert("gostring-unchanged", g == fmt.Sprintf("%#v", e))
	// the renderers of the top-level API use the shared package-level driver
	t1, terr1 := lucene.ToPostgres(text)
	t2, terr2 := lucene.ToPostgres(text)
	if df == 0 {
		rtAssert("topostgres-deterministic", errText(terr1) == errText(terr2) && t1 == t2 && (rerr1 == nil) == (terr1 == nil) && t1 == sql1)
	}
	if df == 1 {
		rtReach("end")
		return
	}
	// customising a driver of one's own changes nothing for anybody else
	prev, had := d.RenderFNs[expr.Equals]
	d.RenderFNs[expr.Equals] = func(left, right string) (string, error) { return "x", nil }
	t3, terr3 := lucene.ToPostgres(text)
	sql3, rerr3 := pg.Render(e)
	if had {
		d.RenderFNs[expr.Equals] = prev
	} else {
		delete(d.RenderFNs, expr.Equals)
	}
	rtAssert("private-driver-is-private", errText(terr3) == errText(terr1) && t3 == t1 && errText(rerr3) == errText(rerr1) && sql3 == sql1)
	rtReach("end")
}

func errText(err error) string {
	if err == nil {
		return ""
	}
	return "error: " + err.Error()
}

// sameParams compares two parameter lists by dynamic type and value.
func sameParams(a, b []any) bool {
	if len(a) != len(b) {
		return false
	}
	for i := range a {
		switch x := a[i].(type) {
		case string:
			y, ok := b[i].(string)
			if !ok || x != y {
				return false
			}
		case int:
			y, ok := b[i].(int)
			if !ok || x != y {
				return false
			}
		case float64:
			y, ok := b[i].(float64)
			if !ok || !(x == y || (x != x && y != y)) {
				return false
			}
		default:
			if fmt.Sprintf("%T", a[i]) != fmt.Sprintf("%T", b[i]) {
				return false
			}
		}
	}
	return true
}

// raceProbe runs every entry point from several goroutines on a shared input and a shared
// expression; the binary built with -race reports any unsynchronised write.
func raceProbe(text string) {
	shared, _ := lucene.Parse(text)
	var wg sync.WaitGroup
	for i := 0; i < 8; i++ {
		wg.Add(1)
		go func(i int) {
			defer wg.Done()
			defer func() { recover() }()
			for r := 0; r < 3; r++ {
				if i%2 == 0 {
					_, _ = lucene.Parse(text)
				} else {
					_, _ = lucene.Parse(text, lucene.WithDefaultField("f"))
				}
				_, _ = lucene.ToPostgres(text)
				_, _, _ = lucene.ToParameterizedPostgres(text)
				if shared != nil {
					_ = shared.String()
					_ = fmt.Sprintf("%#v", shared)
					_ = expr.Validate(shared)
					_, _ = pg.Render(shared)
					_, _, _ = pg.RenderParam(shared)
					_, _ = json.Marshal(shared)
					_, _ = driver.NewPostgresDriver().Render(shared) // cmd/main.go builds a driver per call
				}
			}
		}(i)
	}
	wg.Wait()
}
