//go:build verif

package zzverif

import (
	lucene "github.com/grindlemire/go-lucene"
)

func init() {
	register("TreeRoundTrip", H_TreeRoundTrip)
}

// treeOps: OPS=1 restricts the operators to the boolean ones (deeper trees stay affordable).
func treeOps() []int {
	if rtParam("OPS") == 1 {
		return []int{nOr, nAnd, nNot}
	}
	if rtParam("OPS") == 2 {
		return []int{nOr, nAnd, nNot, nMustNot}
	}
	return allOps
}

func leafForms() []int {
	if rtParam("LEAVES") == 3 {
		return []int{lfEqStr}
	}
	if rtParam("LEAVES") == 6 {
		return []int{lfBare}
	}
	if rtParam("LEAVES") == 4 { // the full alphabet plus the forms the JSON clauses name
		all := make([]int, 0, lfCount+4)
		for i := 0; i < lfCount; i++ {
			all = append(all, i)
		}
		return append(all, lfEmptyQuoted, lfNonASCII, lfEqSpecial, lfListInt, lfRangeBig, lfEqBig)
	}
	if rtParam("LEAVES") == 2 {
		return []int{lfBare, lfEqStr, lfEqInt, lfGt, lfRangeIncl, lfList, lfWild, lfBareInt}
	}
	if rtParam("LEAVES") == 1 {
		all := make([]int, lfCount)
		for i := range all {
			all[i] = i
		}
		return all
	}
	return smallLeaves
}

func nodeTag(n *node) string {
	names := []string{"leaf", "OR", "AND", "NOT", "BOOST", "FUZZY", "MUSTNOT", "MUST"}
	return names[n.kind]
}

// pairTag names the operator directly under the root (family of a finding).
func pairTag(n *node) string {
	t := nodeTag(n)
	if n.l != nil {
		t += "/" + nodeTag(n.l)
	}
	if n.r != nil {
		t += "," + nodeTag(n.r)
	}
	return t
}

// H_TreeRoundTrip (C05): print(tree) with parentheses exactly where the table requires them,
// parse, compare with the tree.
func H_TreeRoundTrip() {
	t := genTree(rtParam("D"), treeOps(), leafForms())
	rtTag("shape=" + pairTag(t))
	variant := rtParam("VARIANT") // 0 minimal, 1 redundant parentheses around every operand, 2 wide spacing
	o := &printOpts{}
	if variant == 1 {
		o.extraPar = map[*node]bool{}
		for _, n := range collect(t, -1, nil) {
			if n != t || true {
				o.extraPar[n] = true
			}
		}
	}
	if variant == 2 {
		o.wideSpace = true
	}
	text := printNode(t, 0, o)
	rtObserve("text", text)
	e, err := lucene.Parse(text)
	rtAssert("parses", err == nil && e != nil)
	if err != nil || e == nil {
		rtReach("rejected")
		return
	}
	rtAssert("same-tree", matchTree(e, t, ""))
	rtReach("end")
}

func init() {
	register("TreeJuxtapose", H_TreeJuxtapose)
	register("TreeLayout", H_TreeLayout)
	register("TreeDefaultField", H_TreeDefaultField)
}

func operandForm(n *node) string {
	switch n.kind {
	case nLeaf:
		if n.lf.form == lfBare || n.lf.form == lfBareInt || n.lf.form == lfBareWild {
			return "plain"
		}
		if n.lf.form >= lfRangeIncl && n.lf.form <= lfRangeStr {
			return "range"
		}
		return "fielded"
	case nNot, nMust, nMustNot:
		return "prefixed"
	case nBoost, nFuzzy:
		return "suffixed"
	}
	return "compound"
}

// lastOperand / firstOperand: the operand that actually touches the gap.
func lastOperand(n *node) *node {
	for n.kind == nAnd || n.kind == nOr || n.kind == nNot || n.kind == nMust || n.kind == nMustNot {
		if n.r != nil {
			n = n.r
		} else {
			n = n.l
		}
	}
	return n
}

// H_TreeJuxtapose (C07): one AND node of the tree written as juxtaposition; whenever both texts
// parse the trees must be identical. A rejected juxtaposition is informational.
func H_TreeJuxtapose() {
	t := genTree(rtParam("D"), treeOps(), leafForms())
	ands := collect(t, nAnd, nil)
	if len(ands) == 0 {
		rtAssume(false)
		return
	}
	gap := ands[rtChoose("gap", len(ands))]
	// the next term after a bare ^ or ~ would be read as the power / distance
	if endsOpen(gap.l) {
		rtAssume(false)
		return
	}
	explicit := printNode(t, 0, &printOpts{})
	juxt := printNode(t, 0, &printOpts{juxt: map[*node]bool{gap: true}})
	rtObserve("explicit", explicit)
	rtObserve("juxt", juxt)
	e1, err1 := lucene.Parse(explicit)
	e2, err2 := lucene.Parse(juxt)
	if err1 != nil || e1 == nil {
		rtReach("explicit-rejected")
		return
	}
	rtTag("left=" + operandForm(gap.l) + ",touch=" + operandForm(lastOperand(gap.l)) + ",right=" + operandForm(gap.r))
	if err2 != nil || e2 == nil {
		rtReach("juxt-rejected")
		rtAssert("juxt-accepted", false) // informational only
		return
	}
	rtReach("both-parse")
	rtAssert("juxt-same-tree", e1.String() == e2.String() && matchTree(e2, t, ""))
}

// H_TreeLayout (C09): layout variants of the same tree parse to the same tree.
func H_TreeLayout() {
	t := genTree(rtParam("D"), treeOps(), leafForms())
	base := printNode(t, 0, &printOpts{})
	e0, err0 := lucene.Parse(base)
	variant := rtParam("VARIANT")
	o := &printOpts{}
	switch variant {
	case 0: // whitespace between tokens
		o.wideSpace = true
	case 1: // keyword case
		o.lowerKw = true
	case 2: // redundant parentheses around one operand / the whole query
		all := collect(t, -1, nil)
		o.extraPar = map[*node]bool{all[rtChoose("paren", len(all))]: true}
	case 3: // redundant parentheses around every field's value
		o.valuePar = true
	}
	text := printNode(t, 0, o)
	if variant == 0 {
		text = " \n" + text + "\t "
	}
	rtObserve("base", base)
	rtObserve("variant", text)
	e1, err1 := lucene.Parse(text)
	if variant < 2 {
		rtAssert("same-outcome", (err0 == nil) == (err1 == nil))
	}
	if err0 != nil || e0 == nil {
		rtReach("base-rejected")
		return
	}
	rtAssert("variant-parses", err1 == nil && e1 != nil)
	if err1 != nil || e1 == nil {
		return
	}
	rtAssert("variant-same-tree", matchTree(e1, t, "") && e1.String() == e0.String())
	rtReach("end")
}

// H_TreeDefaultField (C11): with a default field not used in the query the same queries are
// accepted, bare operands become field:term and nothing else changes.
func H_TreeDefaultField() {
	t := genTree(rtParam("D"), treeOps(), leafForms())
	text := printNode(t, 0, &printOpts{valuePar: rtParam("VARIANT") == 1})
	rtObserve("text", text)
	// a default field name that is not a field of the query (query fields are lower case letters)
	var df string
	if rtParam("DFKIND") == 0 {
		df = string([]byte{holeByte("df", "ABCDEFGHIJKLMNOPQRSTUVWXYZ"), holeByte("df", "ABCDEFGHIJKLMNOPQRSTUVWXYZ_0123456789")})
	} else {
		df = string([]byte{holeByte("df", "ABCDEFGHIJKLMNOPQRSTUVWXYZ"), ' ', holeByte("df", ";'-")})
	}
	e0, err0 := lucene.Parse(text)
	e1, err1 := lucene.Parse(text, lucene.WithDefaultField(df))
	rtAssert("same-acceptance", (err0 == nil) == (err1 == nil))
	if err0 != nil || err1 != nil || e0 == nil || e1 == nil {
		rtReach("rejected")
		return
	}
	// family tags name the two known causes, so that anything else is reported separately
	for _, n := range collect(t, -1, nil) {
		if n.kind == nLeaf && n.lf.form == lfList {
			rtTag("has-list")
		}
	}
	rtAssert("without-matches", matchTree(e0, t, ""))
	rtAssert("scoped-exactly", matchTree(e1, t, df))
	rtReach("end")
}
