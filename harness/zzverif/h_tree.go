//go:build verif

package zzverif

import (
	"fmt"

	lucene "github.com/grindlemire/go-lucene"
	"github.com/grindlemire/go-lucene/pkg/lucene/expr"
)

func init() {
	register("TreeRoundTrip", H_TreeRoundTrip)
}

// treeOps: OPS=1 restricts the operators to the boolean ones (deeper trees stay affordable).
func treeOps() []int {
	if rtParam("OPS") == 1 {
		return []int{nOr, nAnd, nNot}
	}
	if rtParam("OPS") == 2 {
		return []int{nOr, nAnd, nNot, nMustNot}
	}
	if rtParam("OPS") == 4 {
		return []int{nOr, nNot, nBoost}
	}
	if rtParam("OPS") == 3 {
		return []int{nOr, nAnd, nNot, nBoost, nFuzzy, nMustNot, nMust, nGroup}
	}
	return allOps
}

func leafForms() []int {
	if rtParam("LEAVES") == 3 {
		return []int{lfEqStr}
	}
	if rtParam("LEAVES") == 6 {
		return []int{lfBare}
	}
	if rtParam("LEAVES") == 4 { // the full alphabet plus the forms the JSON clauses name
		all := make([]int, 0, lfCount+4)
		for i := 0; i < lfCount; i++ {
			all = append(all, i)
		}
		return append(all, lfEmptyQuoted, lfNonASCII, lfEqSpecial, lfListInt, lfRangeBig, lfEqBig, lfWildField, lfQuotedDigits, lfRangeMixed, lfQuotedWild, lfQuotedRegexp, lfFloatWhole, lfEqHuge, lfRegexpBackslash, lfNonASCII3, lfFloatExp, lfRangeQuotedSpace, lfListNested, lfRangeLong, lfList11)
	}
	if rtParam("LEAVES") == 7 { // default-field alphabet: the full one plus quoted bare terms with wildcard characters
		all := make([]int, 0, lfCount+2)
		for i := 0; i < lfCount; i++ {
			all = append(all, i)
		}
		return append(all, lfBareQuotedWild, lfEmptyQuoted)
	}
	if rtParam("LEAVES") == 8 { // purity alphabet: the full one plus float ranges (fractional and whole bounds)
		all := make([]int, 0, lfCount+2)
		for i := 0; i < lfCount; i++ {
			all = append(all, i)
		}
		return append(all, lfRangeFloat, lfRangeWhole, lfListInt, lfList11)
	}
	if rtParam("LEAVES") == 12 { // value lists whose parentheses nest to the right / to the left, next to a plain list
		return []int{lfList, lfListNested, lfListLeftNested}
	}
	if rtParam("LEAVES") == 11 { // an exclusive and an inclusive range (closed by } and ]) next to plain terms
		return []int{lfEqStr, lfRangeExcl, lfBare}
	}
	if rtParam("LEAVES") == 10 { // bare numbers (printed as -(5) under a minus) next to bare and fielded strings
		return []int{lfBare, lfBareInt, lfEqStr}
	}
	if rtParam("LEAVES") == 9 { // comparisons (their reduction consumes two or three operator tokens) next to a plain field term
		return []int{lfEqStr, lfGt, lfGe}
	}
	if rtParam("LEAVES") == 2 {
		return []int{lfBare, lfEqStr, lfEqInt, lfGt, lfRangeIncl, lfList, lfWild, lfBareInt}
	}
	if rtParam("LEAVES") == 1 {
		all := make([]int, lfCount)
		for i := range all {
			all[i] = i
		}
		return all
	}
	return smallLeaves
}

func nodeTag(n *node) string {
	names := []string{"leaf", "OR", "AND", "NOT", "BOOST", "FUZZY", "MUSTNOT", "MUST", "GROUP"}
	return names[n.kind]
}

// pairTag names the operator directly under the root (family of a finding).
func pairTag(n *node) string {
	t := nodeTag(n)
	if n.l != nil {
		t += "/" + nodeTag(n.l)
	}
	if n.r != nil {
		t += "," + nodeTag(n.r)
	}
	return t
}

// H_TreeRoundTrip (C05): print(tree) with parentheses exactly where the table requires them,
// parse, compare with the tree.
func H_TreeRoundTrip() {
	t := genTree(rtParam("D"), treeOps(), leafForms())
	rtTag("shape=" + pairTag(t))
	variant := rtParam("VARIANT") // 0 minimal, 1 redundant parentheses around every operand, 2 wide spacing
	o := &printOpts{}
	if variant == 1 {
		o.extraPar = map[*node]bool{}
		for _, n := range collect(t, -1, nil) {
			if n != t || true {
				o.extraPar[n] = true
			}
		}
	}
	if variant == 2 {
		o.wideSpace = true
	}
	text := printNode(t, 0, o)
	rtObserve("text", text)
	e, err := lucene.Parse(text)
	rtAssert("parses", err == nil && e != nil)
	if err != nil || e == nil {
		rtReach("rejected")
		return
	}
	rtAssert("same-tree", matchTree(e, t, ""))
	rtReach("end")
}

func init() {
	register("TreeJuxtapose", H_TreeJuxtapose)
	register("TreeLayout", H_TreeLayout)
	register("TreeDefaultField", H_TreeDefaultField)
}

func operandForm(n *node) string {
	switch n.kind {
	case nLeaf:
		if n.lf.form == lfBare || n.lf.form == lfBareInt || n.lf.form == lfBareWild || n.lf.form == lfBareQuotedWild {
			return "plain"
		}
		if n.lf.form >= lfRangeIncl && n.lf.form <= lfRangeStr {
			return "range"
		}
		return "fielded"
	case nNot, nMust, nMustNot:
		return "prefixed"
	case nBoost, nFuzzy:
		return "suffixed"
	}
	return "compound"
}

// lastOperand / firstOperand: the operand that actually touches the gap.
func lastOperand(n *node) *node {
	for n.kind == nAnd || n.kind == nOr || n.kind == nNot || n.kind == nMust || n.kind == nMustNot {
		if n.r != nil {
			n = n.r
		} else {
			n = n.l
		}
	}
	return n
}

// firstTokenIsTerm / lastTokenIsTerm: the printed operand starts / ends with a term token (no
// bracket, prefix operator or bare suffix operator at that end). Juxtaposition is how two such
// neighbours are written side by side; a gap between them is *eligible*.
func firstTokenIsTerm(n *node, parenthesised bool) bool {
	if parenthesised {
		return false
	}
	switch n.kind {
	case nLeaf, nGroup:
		return true
	case nAnd, nOr:
		return firstTokenIsTerm(n.l, level[n.l.kind] < level[n.kind])
	case nBoost, nFuzzy:
		return firstTokenIsTerm(n.l, level[n.l.kind] < level[n.kind])
	}
	return false // NOT, +, - start with an operator token
}

func lastTokenIsTerm(n *node, parenthesised bool) bool {
	if parenthesised {
		return false
	}
	switch n.kind {
	case nLeaf:
		f := n.lf.form
		// ranges and value lists end with a bracket
		if (f >= lfRangeIncl && f <= lfRangeStr) || f == lfList {
			return false
		}
		return true
	case nGroup:
		return false
	case nAnd, nOr:
		return lastTokenIsTerm(n.r, level[n.r.kind] <= level[n.kind])
	case nNot, nMust, nMustNot:
		if n.kind == nMustNot && n.l.kind == nLeaf && n.l.lf.form == lfBareInt {
			return false // printed as -(5): -5 would be one number token
		}
		return lastTokenIsTerm(n.l, level[n.l.kind] < level[n.kind])
	case nBoost, nFuzzy:
		return n.hasNum // a bare ^ or ~ ends with the operator
	}
	return false
}

// H_TreeJuxtapose (C07): one AND node of the tree written as juxtaposition; whenever both texts
// parse the trees must be identical. A rejected juxtaposition is informational.
func H_TreeJuxtapose() {
	oneDigitInts = rtParam("ONEDIGIT") == 1
	var t *node
	if rtParam("GROUP") == 1 { // the whole tree is the value of a field group x:( ... ) over bare terms
		t = &node{kind: nGroup, field: holeField(), l: genTree(rtParam("D"), []int{nAnd, nNot, nMustNot}, []int{lfBare})}
	} else {
		t = genTree(rtParam("D"), treeOps(), leafForms())
	}
	dfn := ""
	if rtParam("DF") == 1 {
		dfn = "F" // not a field of any generated query
	}
	parse := func(q string) (*expr.Expression, error) {
		if dfn != "" {
			return lucene.Parse(q, lucene.WithDefaultField(dfn))
		}
		return lucene.Parse(q)
	}
	ands := collect(t, nAnd, nil)
	if len(ands) == 0 {
		rtAssume(false)
		return
	}
	gap := ands[rtChoose("gap", len(ands))]
	// the next term after a bare ^ or ~ would be read as the power / distance
	if endsOpen(gap.l) {
		rtAssume(false)
		return
	}
	explicit := printNode(t, 0, &printOpts{})
	juxt := printNode(t, 0, &printOpts{juxt: map[*node]bool{gap: true}})
	rtObserve("explicit", explicit)
	rtObserve("juxt", juxt)
	e1, err1 := parse(explicit)
	e2, err2 := parse(juxt)
	if err1 != nil || e1 == nil {
		rtReach("explicit-rejected")
		return
	}
	rtTag("left=" + operandForm(gap.l) + ",touch=" + operandForm(lastOperand(gap.l)) + ",right=" + operandForm(gap.r))
	eligible := lastTokenIsTerm(gap.l, level[gap.l.kind] < level[nAnd]) && firstTokenIsTerm(gap.r, level[gap.r.kind] <= level[nAnd])
	if err2 != nil || e2 == nil {
		rtReach("juxt-rejected")
		if eligible {
			// two operands whose neighbouring tokens are both terms may be written side by side
			rtAssert("eligible-juxt-parses", false)
		} else {
			rtAssert("juxt-accepted", false) // informational only
		}
		return
	}
	rtReach("both-parse")
	rtAssert("juxt-same-tree", e1.String() == e2.String() && fmt.Sprintf("%#v", e1) == fmt.Sprintf("%#v", e2) && matchTree(e2, t, dfn))
}

// H_TreeLayout (C09): layout variants of the same tree parse to the same tree.
func H_TreeLayout() {
	t := genTree(rtParam("D"), treeOps(), leafForms())
	base := printNode(t, 0, &printOpts{})
	dfn := ""
	if rtParam("DF") == 1 {
		dfn = "F" // not a field of any generated query (those are lower case)
	}
	parse := func(q string) (*expr.Expression, error) {
		if dfn != "" {
			return lucene.Parse(q, lucene.WithDefaultField(dfn))
		}
		return lucene.Parse(q)
	}
	e0, err0 := parse(base)
	variant := rtParam("VARIANT")
	o := &printOpts{}
	switch variant {
	case 0: // whitespace between tokens
		o.wideSpace = true
	case 1: // keyword case
		o.lowerKw = true
	case 2: // redundant parentheses around one operand / the whole query
		all := collect(t, -1, nil)
		o.extraPar = map[*node]bool{all[rtChoose("paren", len(all))]: true}
	case 3: // redundant parentheses around every field's value
		o.valuePar = true
	case 4: // white space between a prefix operator and its operand
		o.prefixSp = true
	case 5: // every kind of white space the lexer knows, alone: tab, line feed, carriage return, CR LF
		o.spaceStr = []string{"\t", "\n", "\r", "\r\n"}[rtChoose("ws", 4)]
	case 6: // redundant parentheses around the number operand of ~ and ^
		o.numPar = true
	}
	text := printNode(t, 0, o)
	if variant == 0 {
		text = " \n" + text + "\t "
	}
	if variant == 5 {
		text = o.spaceStr + text + o.spaceStr
	}
	rtObserve("base", base)
	rtObserve("variant", text)
	e1, err1 := parse(text)
	if variant < 2 || variant == 5 {
		rtAssert("same-outcome", (err0 == nil) == (err1 == nil))
	}
	if err0 != nil || e0 == nil {
		rtReach("base-rejected")
		return
	}
	rtAssert("variant-parses", err1 == nil && e1 != nil)
	if err1 != nil || e1 == nil {
		return
	}
	same := e1.String() == e0.String()
	hasList := false
	for _, n := range collect(t, nLeaf, nil) {
		if n.lf.form == lfList {
			hasList = true
		}
	}
	_ = hasList
	same = rtAnd(same, matchTree(e1, t, dfn))
	rtAssert("variant-same-tree", same)
	rtReach("end")
}

// H_TreeDefaultField (C11): with a default field not used in the query the same queries are
// accepted, bare operands become field:term and nothing else changes.
func H_TreeDefaultField() {
	t := genTree(rtParam("D"), treeOps(), leafForms())
	po := &printOpts{valuePar: rtParam("VARIANT") == 1}
	if rtParam("VARIANT") == 2 { // one redundant pair of parentheses around any node, the whole query included
		all := collect(t, -1, nil)
		po.extraPar = map[*node]bool{all[rtChoose("paren", len(all))]: true}
	}
	text := printNode(t, 0, po)
	rtObserve("text", text)
	// a default field name that is not a field of the query (query fields are lower case letters)
	var df string
	switch rtParam("DFKIND") {
	case 2: // leading white space is part of the name
		df = string([]byte{' ', holeByte("df", "ABCDEFGHIJKLMNOPQRSTUVWXYZ")})
	case 3: // trailing white space too
		df = string([]byte{holeByte("df", "ABCDEFGHIJKLMNOPQRSTUVWXYZ"), '\t'})
	case 4: // characters the renderers refuse or escape in a column name: parsing does not look at them
		df = string([]byte{holeByte("df", "ABCDEFGHIJKLMNOPQRSTUVWXYZ"), holeByte("df", "\"\\*?:()")})
	}
	if rtParam("DFKIND") >= 2 {
	} else if rtParam("DFKIND") == 0 {
		df = string([]byte{holeByte("df", "ABCDEFGHIJKLMNOPQRSTUVWXYZ"), holeByte("df", "ABCDEFGHIJKLMNOPQRSTUVWXYZ_0123456789")})
	} else {
		df = string([]byte{holeByte("df", "ABCDEFGHIJKLMNOPQRSTUVWXYZ"), ' ', holeByte("df", ";'-")})
	}
	e0, err0 := lucene.Parse(text)
	e1, err1 := lucene.Parse(text, lucene.WithDefaultField(df))
	rtAssert("same-acceptance", (err0 == nil) == (err1 == nil))
	if err0 != nil || err1 != nil || e0 == nil || e1 == nil {
		rtReach("rejected")
		return
	}
	// family tags name the two known causes, so that anything else is reported separately
	for _, n := range collect(t, -1, nil) {
		if n.kind == nLeaf && n.lf.form == lfList {
			rtTag("has-list")
		}
	}
	rtAssert("without-matches", matchTree(e0, t, ""))
	rtAssert("scoped-exactly", matchTree(e1, t, df))
	// the same two clauses decided on the two parse results alone, without the reference matcher
	rtAssert("erase-gives-plain", sameModuloScope(e1, e0, df))
	rtAssert("no-bare-term", noBareOperand(e1))
	rtReach("end")
}

func init() { register("GroupDefaultField", H_GroupDefaultField) }

// sameModuloScope: a is the tree parsed with the default field df, b the tree parsed without it;
// erasing every df: scoping from a gives exactly b (C11's own statement, decided on the two
// real parse results).
func sameModuloScope(a, b any, df string) bool {
	switch x := a.(type) {
	case nil:
		return b == nil
	case *expr.Expression:
		if x == nil {
			y, ok := b.(*expr.Expression)
			return ok && y == nil
		}
		if (x.Op == expr.Equals || x.Op == expr.Like) && litColumn(x.Left, df) {
			return sameModuloScope(x.Right, b, df)
		}
		y, ok := b.(*expr.Expression)
		if !ok || y == nil || x.Op != y.Op || expr.VerifBoostPower(x) != expr.VerifBoostPower(y) || expr.VerifFuzzyDistance(x) != expr.VerifFuzzyDistance(y) {
			return false
		}
		return rtAnd(sameModuloScope(x.Left, y.Left, df), sameModuloScope(x.Right, y.Right, df))
	case []*expr.Expression:
		y, ok := b.([]*expr.Expression)
		if !ok || len(x) != len(y) {
			return false
		}
		res := true
		for i := range x {
			res = rtAnd(res, sameModuloScope(x[i], y[i], df))
		}
		return res
	case *expr.RangeBoundary:
		y, ok := b.(*expr.RangeBoundary)
		if !ok || (x == nil) != (y == nil) {
			return false
		}
		if x == nil {
			return true
		}
		return x.Inclusive == y.Inclusive && rtAnd(sameModuloScope(x.Min, y.Min, df), sameModuloScope(x.Max, y.Max, df))
	case string:
		y, ok := b.(string)
		return ok && x == y
	case expr.Column:
		y, ok := b.(expr.Column)
		return ok && string(x) == string(y)
	case int:
		y, ok := b.(int)
		return ok && x == y
	case float64:
		y, ok := b.(float64)
		return ok && x == y
	}
	return false
}

// noBareOperand: outside field values no term stands alone as an operand or as the whole query.
func noBareOperand(v any) bool {
	e := asExpr(v)
	if e == nil {
		return true
	}
	switch e.Op {
	case expr.Literal, expr.Wild, expr.Regexp:
		return false
	case expr.And, expr.Or:
		return noBareOperand(e.Left) && noBareOperand(e.Right)
	case expr.Not, expr.Must, expr.MustNot, expr.Boost, expr.Fuzzy:
		return noBareOperand(e.Left)
	}
	return true // a field operator: what is below belongs to that field
}

// H_GroupDefaultField (C11): field groups field:(E) with E any nesting of OR, AND, NOT over bare
// strings, numbers and patterns, alone or next to other operands, parsed with and without a
// default field; the two results are compared with each other.
func H_GroupDefaultField() {
	gops := []int{nOr, nAnd, nNot}
	gforms := []int{lfBare, lfBareInt, lfBareWild}
	if rtParam("GFORMS") == 1 {
		gforms = []int{lfBare}
	}
	g := &node{kind: nGroup, field: holeField(), l: genTree(rtParam("GD"), gops, gforms)}
	bare := func() *node { return &node{kind: nLeaf, lf: &leaf{form: lfBare, s1: holeStr()}} }
	t := g
	nAround := 4
	if rtParam("GFORMS") == 1 {
		nAround = 1
	}
	switch rtChoose("around", nAround) {
	case 1:
		t = &node{kind: nNot, l: g}
	case 2:
		t = &node{kind: nAnd, l: bare(), r: g}
	case 3:
		t = &node{kind: nOr, l: g, r: bare()}
	}
	text := printNode(t, 0, &printOpts{})
	rtObserve("text", text)
	df := string([]byte{holeByte("df", "ABCDEFGHIJKLMNOPQRSTUVWXYZ"), holeByte("df", "ABCDEFGHIJKLMNOPQRSTUVWXYZ_0123456789")})
	e0, err0 := lucene.Parse(text)
	e1, err1 := lucene.Parse(text, lucene.WithDefaultField(df))
	rtAssert("same-acceptance", (err0 == nil) == (err1 == nil))
	if err0 != nil || err1 != nil || e0 == nil || e1 == nil {
		rtReach("rejected")
		return
	}
	rtAssert("erase-gives-plain", sameModuloScope(e1, e0, df))
	rtAssert("no-bare-term", noBareOperand(e1))
	rtReach("end")
}
