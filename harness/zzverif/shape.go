//go:build verif

package zzverif

import "github.com/grindlemire/go-lucene/pkg/lucene/expr"

// shapeOK is the independent well-formedness check of C10, written from the property text:
// field positions hold a single term, range bounds are single terms, value lists hold at least
// two plain values, unary operators have exactly one operand, pattern matches have a pattern on
// the right, binary operators have two operands.

func isLeafExpr(v any) bool {
	e, ok := v.(*expr.Expression)
	if !ok || e == nil {
		return false
	}
	if e.Op != expr.Literal && e.Op != expr.Wild && e.Op != expr.Regexp {
		return false
	}
	if e.Right != nil {
		return false
	}
	switch e.Left.(type) {
	case string, int, float64, expr.Column:
		return true
	}
	return false
}

func isOperandExpr(v any) bool {
	e, ok := v.(*expr.Expression)
	return ok && e != nil && shapeOK(e)
}

func shapeOK(e *expr.Expression) bool {
	if e == nil {
		return false
	}
	switch e.Op {
	case expr.Literal, expr.Wild, expr.Regexp:
		return isLeafExpr(e)
	case expr.And, expr.Or:
		return isOperandExpr(e.Left) && isOperandExpr(e.Right)
	case expr.Not, expr.Must, expr.MustNot, expr.Boost, expr.Fuzzy:
		return e.Right == nil && isOperandExpr(e.Left)
	case expr.Equals:
		// field:value; the value may be a term or a parenthesised group (field grouping)
		return isLeafExpr(e.Left) && isOperandExpr(e.Right)
	case expr.Greater, expr.Less, expr.GreaterEq, expr.LessEq:
		// C10 names no rule for the operand of a comparison (C06's derivation oracle requires a single term)
		return isLeafExpr(e.Left) && isOperandExpr(e.Right)
	case expr.Like:
		if !isLeafExpr(e.Left) || !isLeafExpr(e.Right) {
			return false
		}
		r := e.Right.(*expr.Expression)
		return r.Op == expr.Wild || r.Op == expr.Regexp
	case expr.Range:
		if !isLeafExpr(e.Left) {
			return false
		}
		b, ok := e.Right.(*expr.RangeBoundary)
		return ok && b != nil && isLeafExpr(b.Min) && isLeafExpr(b.Max)
	case expr.In:
		if !isLeafExpr(e.Left) {
			return false
		}
		l, ok := e.Right.(*expr.Expression)
		if !ok || l == nil || l.Op != expr.List || l.Right != nil {
			return false
		}
		items, ok := l.Left.([]*expr.Expression)
		if !ok || len(items) < 2 {
			return false
		}
		for _, it := range items {
			if !isLeafExpr(it) || it.Op != expr.Literal {
				return false
			}
		}
		return true
	}
	return false
}
