//go:build verif

package zzverif

import (
	"encoding/json"
	"fmt"
	"strings"

	lucene "github.com/grindlemire/go-lucene"
	"github.com/grindlemire/go-lucene/pkg/driver"
	"github.com/grindlemire/go-lucene/pkg/lucene/expr"
)

func init() {
	register("ParseBytes", H_ParseBytes)
}

var pg = driver.NewPostgresDriver()

func parseOpt(in string, df int) (*expr.Expression, error) {
	if df >= 1 {
		return lucene.Parse(in, lucene.WithDefaultField(dfName(df)))
	}
	return lucene.Parse(in)
}

// topLevel runs the package's two SQL entry points on the text itself (C01: no panic; C10: a
// non-empty string xor an error, empty SQL with every error; they agree with Parse on acceptance).
func topLevel(in string, df int, parsed bool) {
	if rtParam("NOTOP") == 1 { // the widest runs leave the entry points to the narrower ones
		return
	}
	var s, ps string
	var err, perr error
	if df >= 1 {
		s, err = lucene.ToPostgres(in, lucene.WithDefaultField(dfName(df)))
		ps, _, perr = lucene.ToParameterizedPostgres(in, lucene.WithDefaultField(dfName(df)))
	} else {
		s, err = lucene.ToPostgres(in)
		ps, _, perr = lucene.ToParameterizedPostgres(in)
	}
	rtAssert("topostgres-xor", (s != "") != (err != nil))
	rtAssert("toparam-error-empty", perr == nil || ps == "")
	rtAssert("toparam-xor", (ps != "") != (perr != nil))
	if !parsed {
		rtAssert("rejected-by-all", err != nil && perr != nil)
	}
}

// totalityChecks runs every consumer of an accepted expression (C01) and the all-or-nothing
// result shapes of the renderers (C10).
func totalityChecks(e *expr.Expression, inputHasMarker bool) {
	s := e.String()
	rtAssert("string-no-marker", inputHasMarker || !strings.Contains(s, "%!"))
	rtObserve("string", s)
	g := fmt.Sprintf("%#v", e)
	rtAssert("gostring-no-marker", inputHasMarker || !strings.Contains(g, "%!"))
	rtObserve("gostring", g)
	sql, err := pg.Render(e)
	rtAssert("render-xor", (sql != "") != (err != nil))
	if err == nil {
		rtReach("rendered")
		rtObserve("sql", sql)
	} else {
		rtReach("render-error")
	}
	psql, params, perr := pg.RenderParam(e)
	if perr != nil {
		rtAssert("param-error-empty", psql == "")
		rtReach("param-error")
	} else {
		rtReach("param-rendered")
		rtObserve("psql", psql)
		rtObserveInt("nparams", len(params))
	}
	rtAssert("inline-ok-implies-param-ok", err != nil || perr == nil)
	// JSON encoding of what Parse returned (through the engine's stand-in for encoding/json)
	js, jerr := json.Marshal(e)
	if jerr == nil {
		rtAssert("json-no-marker", inputHasMarker || !strings.Contains(string(js), "%!"))
		rtReach("json-encoded")
	} else {
		rtReach("json-error")
	}
}

// H_ParseBytes (C01, C10): N arbitrary bytes through Parse and every consumer of the result.
func H_ParseBytes() {
	n := rtParam("N")
	df := rtParam("DF")
	in := string(rtBytes("in", n))
	e, err := parseOpt(in, df)
	rtAssert("parse-xor", (e != nil) != (err != nil))
	if err != nil || e == nil {
		topLevel(in, df, false)
		rtReach("rejected")
		return
	}
	rtReach("accepted")
	rtAssert("validates", expr.Validate(e) == nil)
	rtAssert("shape", shapeOK(e))
	totalityChecks(e, hasMarkerChars(in))
	topLevel(in, df, true)
	rtReach("end")
}

func init() { register("ParseTokens", H_ParseTokens) }

// H_ParseTokens (C01, C10): K token slots (symbolic literal bytes) through Parse and every consumer.
func H_ParseTokens() {
	k := rtParam("K")
	df := rtParam("DF")
	var in string
	if rtParam("WIDE") == 1 {
		in = tokenSlots(k, true)
	} else {
		in = shapeSlots(k)
	}
	e, err := parseOpt(in, df)
	rtAssert("parse-xor", (e != nil) != (err != nil))
	if err != nil || e == nil {
		topLevel(in, df, false)
		rtReach("rejected")
		return
	}
	rtReach("accepted")
	rtAssert("validates", expr.Validate(e) == nil)
	rtAssert("shape", shapeOK(e))
	totalityChecks(e, hasMarkerChars(in))
	topLevel(in, df, true)
	rtReach("end")
}

var contexts = []string{
	"f:[# TO 5]", "f:[1 TO #]", "f:{# TO #}", "f:(#)", "(#)", "(#) AND v", "v AND (#)",
	"NOT #", "f:#", "f:>#", "v #", "# v", "#~2", "#^2", "f:[# TO *]", "-#", "+#", "f:>=#", "v OR #", "v~#", "v^#", "f:(# OR #)", "f:(# OR # OR #)", "#:v", "(#):x*", "#:[1 TO 2]", "f:# AND v",
	"f:((#):v)", "f:(v OR (#):v)", "f:>((#):v)", "v AND f:((#):x*)", "f:>(#)",
	"(#):x* AND v", "NOT (#):x*", "-(#):x", "((#):x)^2",
}

func init() { register("ParseCtx", H_ParseCtx) }

// ctxInput fills every hole of the context with S shape slots.
func ctxShapes() []shape {
	if rtParam("SHAPES") == 1 {
		return reducedShapes
	}
	return narrowShapes
}

func ctxInput(ctx string, s int) string {
	shapes := ctxShapes()
	var buf []byte
	for i := 0; i < len(ctx); i++ {
		if ctx[i] != '#' {
			buf = append(buf, ctx[i])
			continue
		}
		for j := 0; j < s; j++ {
			c := rtChoose("shape", len(shapes))
			if j > 0 {
				buf = append(buf, ' ')
			}
			buf = shapeBytes(buf, shapes[c])
		}
	}
	return string(buf)
}

// H_ParseCtx (C01, C10): free token slots inside fixed bracket/operator contexts.
func H_ParseCtx() {
	ctx := contexts[rtParam("CTX")]
	rtTag("ctx=" + ctx)
	in := ctxInput(ctx, rtParam("S"))
	df := rtParam("DF")
	e, err := parseOpt(in, df)
	rtAssert("parse-xor", (e != nil) != (err != nil))
	if err != nil || e == nil {
		topLevel(in, df, false)
		rtReach("rejected")
		return
	}
	rtReach("accepted")
	rtAssert("validates", expr.Validate(e) == nil)
	rtAssert("shape", shapeOK(e))
	totalityChecks(e, hasMarkerChars(in))
	topLevel(in, df, true)
	rtReach("end")
}

// hasMarkerChars: the input itself can spell "%!" (possibly through escapes); such inputs are
// exempt from the no-marker assertions, which are about markers produced by fmt.
func hasMarkerChars(in string) bool {
	return strings.Contains(in, "%") && strings.Contains(in, "!")
}

func init() {
	register("DeriveTokens", H_DeriveTokens)
	register("DeriveCtx", H_DeriveCtx)
}

// oddDefaultFields: names a caller may pass as the default field that are not identifiers (DF = 2..).
var oddDefaultFields = []string{"\"", "\"\"", "'", " ", "\\", "a\"", "\"\"\""}

func dfName(df int) string {
	if df == 1 {
		return "f"
	}
	if df >= 2 && df-2 < len(oddDefaultFields) {
		return oddDefaultFields[df-2]
	}
	return ""
}

// H_DeriveTokens (C06): every accepted K-token sequence's tree is a derivation of the tokens.
func H_DeriveTokens() {
	k := rtParam("K")
	df := rtParam("DF")
	var buf []byte
	var toks []dtok
	for i := 0; i < k; i++ {
		c := rtChoose("shape", len(narrowShapes))
		if i > 0 {
			buf = append(buf, ' ')
		}
		var t dtok
		buf, t = shapeTok(buf, narrowShapes[c])
		toks = append(toks, t)
	}
	if te := rtParam("TAILERR"); te > 0 { // an unterminated phrase or regexp at the end of the input
		open := []string{"", "\"", "'", "/"}[te]
		buf = append(buf, ' ')
		start := len(buf)
		buf = append(buf, open...)
		b := rtByte("lit")
		rtAssume(rtIn(b, lowerCls))
		buf = append(buf, b)
		toks = append(toks, dtok{kind: tkErr, raw: string(buf[start:])})
	}
	in := string(buf)
	rtObserve("in", in)
	e, err := parseOpt(in, df)
	if err != nil || e == nil {
		rtReach("rejected")
		return
	}
	rtReach("accepted")
	d := &deriver{t: toks, df: dfName(df)}
	rtAssert("derivation", d.derives(e, 0, len(toks)))
}

// ctxItems describes a context skeleton token by token; "#" is a hole of S free slots.
var ctxItems = [][]string{
	{"f", ":", "[", "#", "TO", "5", "]"}, {"f", ":", "[", "1", "TO", "#", "]"}, {"f", ":", "{", "#", "TO", "#", "}"},
	{"f", ":", "(", "#", ")"}, {"(", "#", ")"}, {"(", "#", ")", "AND", "v"}, {"v", "AND", "(", "#", ")"},
	{"NOT", "#"}, {"f", ":", "#"}, {"f", ":", ">", "#"}, {"v", "#"}, {"#", "v"}, {"#", "~", "2"}, {"#", "^", "2"},
	{"f", ":", "[", "#", "TO", "*", "]"}, {"-", "#"}, {"+", "#"}, {"f", ":", ">", "=", "#"}, {"v", "OR", "#"}, {"v", "~", "#"}, {"v", "^", "#"}, {"f", ":", "(", "#", "OR", "#", ")"}, {"f", ":", "(", "#", "OR", "#", "OR", "#", ")"},
	{"#", ":", "v"}, {"(", "#", ")", ":", "x*"}, {"#", ":", "[", "1", "TO", "2", "]"}, {"f", ":", "#", "AND", "v"},
	{"f", ":", "(", "(", "#", ")", ":", "v", ")"}, {"f", ":", "(", "v", "OR", "(", "#", ")", ":", "v", ")"}, {"f", ":", ">", "(", "(", "#", ")", ":", "v", ")"}, {"v", "AND", "f", ":", "(", "(", "#", ")", ":", "x*", ")"}, {"f", ":", ">", "(", "#", ")"},
	{"(", "#", ")", ":", "x*", "AND", "v"}, {"NOT", "(", "#", ")", ":", "x*"}, {"-", "(", "#", ")", ":", "v"}, {"(", "(", "#", ")", ":", "v", ")", "^", "2"},
}

func fixedTok(s string) dtok {
	switch s {
	case "AND":
		return dtok{kind: tkAnd, raw: s}
	case "OR":
		return dtok{kind: tkOr, raw: s}
	case "NOT":
		return dtok{kind: tkNot, raw: s}
	case "TO":
		return dtok{kind: tkTo, raw: s}
	case "f", "v":
		return dtok{kind: tkTerm, tv: tvString, s: s, raw: s}
	case "1", "2", "5":
		return dtok{kind: tkTerm, tv: tvInt, i: int(s[0] - '0'), raw: s}
	case "*", "x*":
		return dtok{kind: tkTerm, tv: tvWild, s: s, raw: s}
	}
	return dtok{kind: tkSym, sym: s[0], raw: s}
}

// H_DeriveCtx (C06): free slots inside bracket/operator contexts.
func H_DeriveCtx() {
	items := ctxItems[rtParam("CTX")]
	s := rtParam("S")
	df := rtParam("DF")
	rtTag("ctx=" + contexts[rtParam("CTX")])
	var buf []byte
	var toks []dtok
	for _, it := range items {
		if len(buf) > 0 {
			buf = append(buf, ' ')
		}
		if it != "#" {
			buf = append(buf, it...)
			toks = append(toks, fixedTok(it))
			continue
		}
		for j := 0; j < s; j++ {
			c := rtChoose("shape", len(ctxShapes()))
			if j > 0 {
				buf = append(buf, ' ')
			}
			var t dtok
			buf, t = shapeTok(buf, ctxShapes()[c])
			toks = append(toks, t)
		}
	}
	in := string(buf)
	rtObserve("in", in)
	e, err := parseOpt(in, df)
	if err != nil || e == nil {
		rtReach("rejected")
		return
	}
	rtReach("accepted")
	d := &deriver{t: toks, df: dfName(df)}
	rtAssert("derivation", d.derives(e, 0, len(toks)))
}

func init() { register("ParseChain", H_ParseChain) }

// H_ParseChain (C01, no-hang clause): concrete adversarial shapes of N operands; the path must
// finish within the engine's instruction budget (an unwinding failure is replayed natively
// under a time limit before it is reported).
func H_ParseChain() {
	n := rtParam("N")
	shape := rtParam("SHAPE")
	var buf []byte
	for i := 0; i < n; i++ {
		switch shape {
		case 0:
			if i > 0 {
				buf = append(buf, " AND "...)
			}
			buf = append(buf, 'a', ':', byte('a'+i%26))
		case 1:
			if i > 0 {
				buf = append(buf, " OR "...)
			}
			buf = append(buf, byte('a'+i%26))
		case 2:
			if i > 0 {
				buf = append(buf, ' ')
			}
			buf = append(buf, byte('a'+i%26))
		case 3:
			buf = append(buf, "NOT "...)
		case 4:
			buf = append(buf, '(')
		case 5:
			buf = append(buf, '-', '(')
		case 6:
			if i > 0 {
				buf = append(buf, " AND "...)
			}
			buf = append(buf, "a:[1 TO 5]^2"...)
		case 7:
			buf = append(buf, 'a', ':')
		case 8:
			buf = append(buf, 'a', ':', '(')
		case 9:
			if i > 0 {
				buf = append(buf, " OR "...)
			}
			buf = append(buf, 'a', ':', byte('a'+i%26))
		}
	}
	switch shape {
	case 3, 7:
		buf = append(buf, 'x')
	case 4, 8:
		buf = append(buf, 'x')
		for i := 0; i < n; i++ {
			buf = append(buf, ')')
		}
	case 5:
		buf = append(buf, 'x')
		for i := 0; i < n; i++ {
			buf = append(buf, ')')
		}
	}
	in := string(buf)
	rtObserve("in", in)
	if shape == 0 || shape == 9 {
		sqlc, cerr := lucene.ToPostgres(in)
		rtAssert("fragment-renders", cerr == nil && sqlc != "") // C03: any nesting depth, any length
	}
	var accepted [2]bool
	for df := 0; df <= 1; df++ {
		e, err := parseOpt(in, df)
		accepted[df] = err == nil && e != nil
		if err == nil && e != nil {
			s := e.String()
			rtObserveInt("len", len(s))
			_, _ = pg.Render(e)
			_, _, _ = pg.RenderParam(e)
			_ = fmt.Sprintf("%#v", e)
		}
	}
	rtAssert("same-acceptance", accepted[0] == accepted[1]) // C11: the option does not change what is accepted
	rtReach("end")
}

func init() { register("LayoutTokens", H_LayoutTokens) }

// H_LayoutTokens (C09, whitespace clause at token level): the same token sequence written with
// one space between all tokens, with no space next to single-character symbols, and with wide
// gaps (tab, newline, leading and trailing white space) has the same outcome and the same tree.
func H_LayoutTokens() {
	k := rtParam("K")
	df := rtParam("DF")
	var toks []dtok
	var spaced, compact, wide, glued, tight, lower []byte
	wide = append(wide, '\n', ' ')
	// a quoted phrase or a regexp carries its own delimiters: no space is needed next to it
	delimited := func(t dtok) bool {
		return t.kind == tkTerm && len(t.raw) > 0 && (t.raw[0] == '"' || t.raw[0] == '\'' || t.raw[0] == '/')
	}
	shapes := narrowShapes
	if rtParam("SHAPES") == 1 {
		shapes = reducedShapes
	}
	for i := 0; i < k; i++ {
		c := rtChoose("shape", len(shapes))
		var t dtok
		var b []byte
		b, t = shapeTok(nil, shapes[c])
		if i > 0 {
			spaced = append(spaced, ' ')
			wide = append(wide, '\t', '\r', ' ')
			// a space is optional next to a one-character symbol other than '-' (which may glue
			// to a following digit or to a preceding word)
			prev := toks[i-1]
			glue := (prev.kind == tkSym && prev.sym != '-') || (t.kind == tkSym && t.sym != '-')
			if !glue {
				compact = append(compact, ' ')
			}
			if !glue && !delimited(prev) && !delimited(t) {
				tight = append(tight, ' ')
			}
			// a prefix - (or +) may be glued to a following term that does not start with a digit
			prevIsPrefix := prev.kind == tkSym && (prev.sym == '-' || prev.sym == '+')
			startsWithDigit := t.kind == tkTerm && (t.tv == tvInt || t.tv == tvFloat)
			if !(prevIsPrefix && t.kind == tkTerm && !startsWithDigit) {
				glued = append(glued, ' ')
			}
		}
		if i > 0 {
			lower = append(lower, ' ')
		}
		if t.kind == tkAnd || t.kind == tkOr || t.kind == tkNot || t.kind == tkTo {
			for _, c := range b { // the keyword in lower case, wherever it stands
				lower = append(lower, c+32)
			}
		} else {
			lower = append(lower, b...)
		}
		spaced = append(spaced, b...)
		compact = append(compact, b...)
		glued = append(glued, b...)
		tight = append(tight, b...)
		wide = append(wide, b...)
		toks = append(toks, t)
	}
	wide = append(wide, ' ', '\t')
	rtObserve("spaced", string(spaced))
	rtObserve("compact", string(compact))
	e1, err1 := parseOpt(string(spaced), df)
	e2, err2 := parseOpt(string(compact), df)
	e3, err3 := parseOpt(string(wide), df)
	e4, err4 := parseOpt(string(glued), df)
	rtObserve("glued", string(glued))
	e5, err5 := parseOpt(string(tight), df)
	rtObserve("tight", string(tight))
	rtAssert("tight-same-outcome", (err1 == nil) == (err5 == nil))
	e6, err6 := parseOpt(string(lower), df)
	rtObserve("lower", string(lower))
	rtAssert("case-same-outcome", (err1 == nil) == (err6 == nil))
	rtAssert("glued-same-outcome", (err1 == nil) == (err4 == nil))
	rtAssert("compact-same-outcome", (err1 == nil) == (err2 == nil))
	rtAssert("wide-same-outcome", (err1 == nil) == (err3 == nil))
	if err1 != nil || e1 == nil {
		rtReach("rejected")
		return
	}
	g1 := fmt.Sprintf("%#v", e1)
	if err2 == nil && e2 != nil {
		rtAssert("compact-same-tree", g1 == fmt.Sprintf("%#v", e2))
	}
	if err3 == nil && e3 != nil {
		rtAssert("wide-same-tree", g1 == fmt.Sprintf("%#v", e3))
	}
	if err4 == nil && e4 != nil {
		rtAssert("glued-same-tree", g1 == fmt.Sprintf("%#v", e4))
	}
	if err5 == nil && e5 != nil {
		rtAssert("tight-same-tree", g1 == fmt.Sprintf("%#v", e5))
	}
	if err6 == nil && e6 != nil {
		rtAssert("case-same-tree", g1 == fmt.Sprintf("%#v", e6))
	}
	rtReach("end")
}

// reducedShapes: one representative per token kind (deeper sequences stay affordable).
var reducedShapes = []shape{narrowShapes[0], narrowShapes[1], narrowShapes[2], narrowShapes[3], narrowShapes[4], narrowShapes[5], narrowShapes[7], narrowShapes[12], narrowShapes[16]}

func init() { register("TreeTotality", H_TreeTotality) }

// H_TreeTotality (C01): every consumer on trees whose quoted values carry bytes that matter to
// formatting and quoting (% ' " \\ and friends) - user text must never be treated as a format.
func H_TreeTotality() {
	forms := []int{lfBare, lfEqStr, lfEqInt, lfQuotedNasty, lfRegexpNasty, lfList, lfRangeIncl, lfWild}
	if rtParam("FORMS") == 1 { // value lists and ranges with every kind of number
		forms = []int{lfListInt, lfListMixed, lfFloat, lfRangeFloat, lfRangeMixed, lfListNested}
	}
	t := genTree(rtParam("D"), treeOps(), forms)
	text := printNode(t, 0, &printOpts{})
	rtObserve("text", text)
	for df := 0; df <= 1; df++ {
		e, err := parseOpt(text, df)
		if err != nil || e == nil {
			continue
		}
		totalityChecks(e, strings.Contains(text, "!"))
	}
	rtReach("end")
}
