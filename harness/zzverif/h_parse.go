//go:build verif

package zzverif

import (
	"fmt"
	"strings"

	lucene "github.com/grindlemire/go-lucene"
	"github.com/grindlemire/go-lucene/pkg/driver"
	"github.com/grindlemire/go-lucene/pkg/lucene/expr"
)

func init() {
	register("ParseBytes", H_ParseBytes)
}

var pg = driver.NewPostgresDriver()

func parseOpt(in string, df int) (*expr.Expression, error) {
	if df == 1 {
		return lucene.Parse(in, lucene.WithDefaultField("f"))
	}
	return lucene.Parse(in)
}

// totalityChecks runs every consumer of an accepted expression (C01) and the all-or-nothing
// result shapes of the renderers (C10).
func totalityChecks(e *expr.Expression, inputHasMarker bool) {
	s := e.String()
	rtAssert("string-no-marker", inputHasMarker || !strings.Contains(s, "%!"))
	rtObserve("string", s)
	g := fmt.Sprintf("%#v", e)
	rtAssert("gostring-no-marker", inputHasMarker || !strings.Contains(g, "%!"))
	rtObserve("gostring", g)
	sql, err := pg.Render(e)
	rtAssert("render-xor", (sql != "") != (err != nil))
	if err == nil {
		rtReach("rendered")
		rtObserve("sql", sql)
	} else {
		rtReach("render-error")
	}
	psql, params, perr := pg.RenderParam(e)
	if perr != nil {
		rtAssert("param-error-empty", psql == "")
		rtReach("param-error")
	} else {
		rtReach("param-rendered")
		rtObserve("psql", psql)
		rtObserveInt("nparams", len(params))
	}
	rtAssert("inline-ok-implies-param-ok", err != nil || perr == nil)
}

// H_ParseBytes (C01, C10): N arbitrary bytes through Parse and every consumer of the result.
func H_ParseBytes() {
	n := rtParam("N")
	df := rtParam("DF")
	in := string(rtBytes("in", n))
	e, err := parseOpt(in, df)
	rtAssert("parse-xor", (e != nil) != (err != nil))
	if err != nil || e == nil {
		rtReach("rejected")
		return
	}
	rtReach("accepted")
	rtAssert("validates", expr.Validate(e) == nil)
	totalityChecks(e, strings.Contains(in, "%!"))
	rtReach("end")
}

func init() { register("ParseTokens", H_ParseTokens) }

// H_ParseTokens (C01, C10): K token slots (symbolic literal bytes) through Parse and every consumer.
func H_ParseTokens() {
	k := rtParam("K")
	df := rtParam("DF")
	var in string
	if rtParam("WIDE") == 1 {
		in = tokenSlots(k, true)
	} else {
		in = shapeSlots(k)
	}
	e, err := parseOpt(in, df)
	rtAssert("parse-xor", (e != nil) != (err != nil))
	if err != nil || e == nil {
		rtReach("rejected")
		return
	}
	rtReach("accepted")
	rtAssert("validates", expr.Validate(e) == nil)
	totalityChecks(e, strings.Contains(in, "%!"))
	rtReach("end")
}
