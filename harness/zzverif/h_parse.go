//go:build verif

package zzverif

import (
	"fmt"
	"strings"

	lucene "github.com/grindlemire/go-lucene"
	"github.com/grindlemire/go-lucene/pkg/driver"
	"github.com/grindlemire/go-lucene/pkg/lucene/expr"
)

func init() {
	register("ParseBytes", H_ParseBytes)
}

var pg = driver.NewPostgresDriver()

func parseOpt(in string, df int) (*expr.Expression, error) {
	if df == 1 {
		return lucene.Parse(in, lucene.WithDefaultField("f"))
	}
	return lucene.Parse(in)
}

// totalityChecks runs every consumer of an accepted expression (C01) and the all-or-nothing
// result shapes of the renderers (C10).
func totalityChecks(e *expr.Expression, inputHasMarker bool) {
	s := e.String()
	rtAssert("string-no-marker", inputHasMarker || !strings.Contains(s, "%!"))
	rtObserve("string", s)
	g := fmt.Sprintf("%#v", e)
	rtAssert("gostring-no-marker", inputHasMarker || !strings.Contains(g, "%!"))
	rtObserve("gostring", g)
	sql, err := pg.Render(e)
	rtAssert("render-xor", (sql != "") != (err != nil))
	if err == nil {
		rtReach("rendered")
		rtObserve("sql", sql)
	} else {
		rtReach("render-error")
	}
	psql, params, perr := pg.RenderParam(e)
	if perr != nil {
		rtAssert("param-error-empty", psql == "")
		rtReach("param-error")
	} else {
		rtReach("param-rendered")
		rtObserve("psql", psql)
		rtObserveInt("nparams", len(params))
	}
	rtAssert("inline-ok-implies-param-ok", err != nil || perr == nil)
}

// H_ParseBytes (C01, C10): N arbitrary bytes through Parse and every consumer of the result.
func H_ParseBytes() {
	n := rtParam("N")
	df := rtParam("DF")
	in := string(rtBytes("in", n))
	e, err := parseOpt(in, df)
	rtAssert("parse-xor", (e != nil) != (err != nil))
	if err != nil || e == nil {
		rtReach("rejected")
		return
	}
	rtReach("accepted")
	rtAssert("validates", expr.Validate(e) == nil)
	rtAssert("shape", shapeOK(e))
	totalityChecks(e, hasMarkerChars(in))
	rtReach("end")
}

func init() { register("ParseTokens", H_ParseTokens) }

// H_ParseTokens (C01, C10): K token slots (symbolic literal bytes) through Parse and every consumer.
func H_ParseTokens() {
	k := rtParam("K")
	df := rtParam("DF")
	var in string
	if rtParam("WIDE") == 1 {
		in = tokenSlots(k, true)
	} else {
		in = shapeSlots(k)
	}
	e, err := parseOpt(in, df)
	rtAssert("parse-xor", (e != nil) != (err != nil))
	if err != nil || e == nil {
		rtReach("rejected")
		return
	}
	rtReach("accepted")
	rtAssert("validates", expr.Validate(e) == nil)
	rtAssert("shape", shapeOK(e))
	totalityChecks(e, hasMarkerChars(in))
	rtReach("end")
}

var contexts = []string{
	"f:[# TO 5]", "f:[1 TO #]", "f:{# TO #}", "f:(#)", "(#)", "(#) AND v", "v AND (#)",
	"NOT #", "f:#", "f:>#", "v #", "# v", "#~2", "#^2", "f:[# TO *]", "-#", "+#", "f:>=#", "v OR #", "v~#", "v^#",
}

func init() { register("ParseCtx", H_ParseCtx) }

// ctxInput fills every hole of the context with S shape slots.
func ctxInput(ctx string, s int) string {
	var buf []byte
	for i := 0; i < len(ctx); i++ {
		if ctx[i] != '#' {
			buf = append(buf, ctx[i])
			continue
		}
		for j := 0; j < s; j++ {
			c := rtChoose("shape", len(narrowShapes))
			if j > 0 {
				buf = append(buf, ' ')
			}
			buf = shapeBytes(buf, narrowShapes[c])
		}
	}
	return string(buf)
}

// H_ParseCtx (C01, C10): free token slots inside fixed bracket/operator contexts.
func H_ParseCtx() {
	ctx := contexts[rtParam("CTX")]
	rtTag("ctx=" + ctx)
	in := ctxInput(ctx, rtParam("S"))
	e, err := parseOpt(in, rtParam("DF"))
	rtAssert("parse-xor", (e != nil) != (err != nil))
	if err != nil || e == nil {
		rtReach("rejected")
		return
	}
	rtReach("accepted")
	rtAssert("validates", expr.Validate(e) == nil)
	rtAssert("shape", shapeOK(e))
	totalityChecks(e, hasMarkerChars(in))
	rtReach("end")
}

// hasMarkerChars: the input itself can spell "%!" (possibly through escapes); such inputs are
// exempt from the no-marker assertions, which are about markers produced by fmt.
func hasMarkerChars(in string) bool {
	return strings.Contains(in, "%") && strings.Contains(in, "!")
}

func init() {
	register("DeriveTokens", H_DeriveTokens)
	register("DeriveCtx", H_DeriveCtx)
}

func dfName(df int) string {
	if df == 1 {
		return "f"
	}
	return ""
}

// H_DeriveTokens (C06): every accepted K-token sequence's tree is a derivation of the tokens.
func H_DeriveTokens() {
	k := rtParam("K")
	df := rtParam("DF")
	var buf []byte
	var toks []dtok
	for i := 0; i < k; i++ {
		c := rtChoose("shape", len(narrowShapes))
		if i > 0 {
			buf = append(buf, ' ')
		}
		var t dtok
		buf, t = shapeTok(buf, narrowShapes[c])
		toks = append(toks, t)
	}
	in := string(buf)
	rtObserve("in", in)
	e, err := parseOpt(in, df)
	if err != nil || e == nil {
		rtReach("rejected")
		return
	}
	rtReach("accepted")
	d := &deriver{t: toks, df: dfName(df)}
	rtAssert("derivation", d.derives(e, 0, len(toks)))
}

// ctxItems describes a context skeleton token by token; "#" is a hole of S free slots.
var ctxItems = [][]string{
	{"f", ":", "[", "#", "TO", "5", "]"}, {"f", ":", "[", "1", "TO", "#", "]"}, {"f", ":", "{", "#", "TO", "#", "}"},
	{"f", ":", "(", "#", ")"}, {"(", "#", ")"}, {"(", "#", ")", "AND", "v"}, {"v", "AND", "(", "#", ")"},
	{"NOT", "#"}, {"f", ":", "#"}, {"f", ":", ">", "#"}, {"v", "#"}, {"#", "v"}, {"#", "~", "2"}, {"#", "^", "2"},
	{"f", ":", "[", "#", "TO", "*", "]"}, {"-", "#"}, {"+", "#"}, {"f", ":", ">", "=", "#"}, {"v", "OR", "#"}, {"v", "~", "#"}, {"v", "^", "#"},
}

func fixedTok(s string) dtok {
	switch s {
	case "AND":
		return dtok{kind: tkAnd, raw: s}
	case "OR":
		return dtok{kind: tkOr, raw: s}
	case "NOT":
		return dtok{kind: tkNot, raw: s}
	case "TO":
		return dtok{kind: tkTo, raw: s}
	case "f", "v":
		return dtok{kind: tkTerm, tv: tvString, s: s, raw: s}
	case "1", "2", "5":
		return dtok{kind: tkTerm, tv: tvInt, i: int(s[0] - '0'), raw: s}
	case "*":
		return dtok{kind: tkTerm, tv: tvWild, s: s, raw: s}
	}
	return dtok{kind: tkSym, sym: s[0], raw: s}
}

// H_DeriveCtx (C06): free slots inside bracket/operator contexts.
func H_DeriveCtx() {
	items := ctxItems[rtParam("CTX")]
	s := rtParam("S")
	df := rtParam("DF")
	rtTag("ctx=" + contexts[rtParam("CTX")])
	var buf []byte
	var toks []dtok
	for _, it := range items {
		if len(buf) > 0 {
			buf = append(buf, ' ')
		}
		if it != "#" {
			buf = append(buf, it...)
			toks = append(toks, fixedTok(it))
			continue
		}
		for j := 0; j < s; j++ {
			c := rtChoose("shape", len(narrowShapes))
			if j > 0 {
				buf = append(buf, ' ')
			}
			var t dtok
			buf, t = shapeTok(buf, narrowShapes[c])
			toks = append(toks, t)
		}
	}
	in := string(buf)
	rtObserve("in", in)
	e, err := parseOpt(in, df)
	if err != nil || e == nil {
		rtReach("rejected")
		return
	}
	rtReach("accepted")
	d := &deriver{t: toks, df: dfName(df)}
	rtAssert("derivation", d.derives(e, 0, len(toks)))
}
