//go:build verif

package zzverif

import (
	"strings"
	"unicode/utf8"

	lucene "github.com/grindlemire/go-lucene"
	"github.com/grindlemire/go-lucene/pkg/lucene/expr"
)

func init() {
	register("QuoteVerbatim", H_QuoteVerbatim)
	register("EscapeVerbatim", H_EscapeVerbatim)
}

// pgStringConst decodes a PostgreSQL string constant (standard_conforming_strings = on) that
// starts at sql[i] == '\''. It returns the decoded value and the index after the constant.
func pgStringConst(sql string, i int) (string, int, bool) {
	if i >= len(sql) || sql[i] != '\'' {
		return "", i, false
	}
	var out []byte
	i++
	for i < len(sql) {
		if sql[i] == '\'' {
			if i+1 < len(sql) && sql[i+1] == '\'' {
				out = append(out, '\'')
				i += 2
				continue
			}
			return string(out), i + 1, true
		}
		out = append(out, sql[i])
		i++
	}
	return "", i, false
}

// H_QuoteVerbatim (C08, quoting clause): any text without a double quote written between double
// quotes is one string value equal to that text, in the tree, in the inline SQL constant as
// PostgreSQL decodes it, and in the parameter list.
func H_QuoteVerbatim() {
	n := rtParam("N")
	wb := rtBytes("w", n)
	for _, b := range wb {
		rtAssume(b != '"')
		rtAssume(b != 0)
	}
	w := string(wb)
	rtAssume(utf8.ValidString(w))
	if rtParam("CTXV") == 1 {
		quoteUnderDefaultField(w, "\""+w+"\"")
		return
	}
	if rtParam("CTXV") == 2 {
		quotedRangeBounds(wb)
		return
	}
	text := "f:\"" + w + "\""
	e, err := lucene.Parse(text)
	rtAssert("quoted-parses", err == nil && e != nil)
	if err != nil || e == nil {
		return
	}
	rtAssert("quoted-tree-verbatim", e.Op == expr.Equals && rtAnd(litColumn(e.Left, "f"), litString(e.Right, w)))
	if w == "*" {
		rtTag("w=*")
	}
	sql, rerr := lucene.ToPostgres(text)
	rtAssert("quoted-renders", rerr == nil)
	if rerr == nil {
		rtObserve("sql", sql)
		ast, _, okp := pgParse(sql)
		okp = okp && ast.kind == qCmp && ast.op == "=" && ast.a.kind == qCol && ast.b.kind == qStr
		rtAssert("quoted-sql-shape", okp && ast.a.text == "f")
		if okp {
			rtAssert("quoted-sql-constant-verbatim", ast.b.text == w)
		}
	}
	psql, params, perr := lucene.ToParameterizedPostgres(text)
	rtAssert("quoted-param-renders", perr == nil)
	if perr == nil {
		rtObserve("psql", psql)
		ok := len(params) == 1
		if ok {
			s, isStr := params[0].(string)
			ok = isStr && s == w
		}
		past, np, pok := pgParse(psql)
		rtAssert("quoted-param-verbatim", pok && np == 1 && past.kind == qCmp && past.op == "=" && past.a.kind == qCol && past.a.text == "f" && past.b.kind == qParam && ok)
	}
	rtReach("end")
}

// quoteUnderDefaultField: the same clause for a free-standing term under an operator, scoped by a
// default field: a:b AND <written> must give F = w in the tree, the inline constant and the
// parameter list.
func quoteUnderDefaultField(w, written string) {
	text := "a:b AND " + written
	rtObserve("query", text)
	e, err := lucene.Parse(text, lucene.WithDefaultField("F"))
	rtAssert("quoted-parses", err == nil && e != nil)
	if err != nil || e == nil {
		return
	}
	r := asExpr(e.Right)
	rtAssert("quoted-tree-verbatim", e.Op == expr.And && r != nil && r.Op == expr.Equals && rtAnd(litColumn(r.Left, "F"), litString(r.Right, w)))
	sql, rerr := lucene.ToPostgres(text, lucene.WithDefaultField("F"))
	rtAssert("quoted-renders", rerr == nil)
	if rerr == nil {
		rtObserve("sql", sql)
		ast, _, okp := pgParse(sql)
		okp = okp && ast.kind == qAnd && ast.b.kind == qCmp && ast.b.op == "=" && ast.b.a.kind == qCol && ast.b.b.kind == qStr
		rtAssert("quoted-sql-shape", okp && ast.b.a.text == "F")
		if okp {
			rtAssert("quoted-sql-constant-verbatim", ast.b.b.text == w)
		}
	}
	_, params, perr := lucene.ToParameterizedPostgres(text, lucene.WithDefaultField("F"))
	rtAssert("quoted-param-renders", perr == nil)
	if perr == nil {
		ok := len(params) == 2
		if ok {
			s, isStr := params[1].(string)
			ok = isStr && s == w
		}
		rtAssert("quoted-param-verbatim", ok)
	}
	rtReach("end")
}

// quotedRangeBounds: quoted texts made of digits and letters as the two bounds of a range are
// string constants in the inline SQL and string parameters, whatever they look like.
func quotedRangeBounds(wb []byte) {
	for _, b := range wb {
		rtAssume(rtIn(b, "0123456789abce.")) // commas and a lone * in a bound are known findings of C03, not this clause's business
	}
	w := string(wb)
	text := "f:[\"" + w + "\" TO \"10\"]"
	rtObserve("query", text)
	sql, rerr := lucene.ToPostgres(text)
	rtAssert("quoted-renders", rerr == nil)
	if rerr == nil {
		rtObserve("sql", sql)
		ast, _, okp := pgParse(sql)
		okp = okp && ast.kind == qBetween && ast.a.kind == qCol && ast.b.kind == qStr && ast.c.kind == qStr
		rtAssert("quoted-sql-shape", okp && ast.a.text == "f")
		if okp {
			rtAssert("quoted-sql-constant-verbatim", rtAnd(ast.b.text == w, ast.c.text == "10"))
		}
	}
	_, params, perr := lucene.ToParameterizedPostgres(text)
	rtAssert("quoted-param-renders", perr == nil)
	if perr == nil {
		ok := len(params) == 2
		if ok {
			s0, is0 := params[0].(string)
			s1, is1 := params[1].(string)
			ok = is0 && is1 && rtAnd(s0 == w, s1 == "10")
		}
		rtAssert("quoted-param-verbatim", ok)
	}
	rtReach("end")
}

const plainWordCls = "ABCDEFGHIJKLMNOPQRSTUVWXYZabcdefghijklmnopqrstuvwxyz0123456789_"

// H_EscapeVerbatim (C08, escaping clause): a non-numeric text written as a bare word with a
// backslash before each special character denotes exactly that text as a plain value.
func H_EscapeVerbatim() {
	n := rtParam("N")
	wb := rtBytes("w", n)
	var text []byte
	hasWild, hasBackslash := false, false
	for i, b := range wb {
		rtAssume(b < 0x80)
		rtAssume(b != 0)
		if i == 0 {
			// keep numbers and inf/nan spellings out ("do not look like numbers")
			rtAssume(rtNot(rtIn(b, "0123456789+-.iInN")))
		}
		if rtIn(b, plainWordCls) {
			text = append(text, b)
		} else {
			text = append(text, '\\', b)
			if b == '*' || b == '?' {
				hasWild = true
			}
			if b == '\\' {
				hasBackslash = true
			}
		}
	}
	if rtParam("HEX") == 1 { // a word in the syntax of a Go based integer literal is a word, not a number
		pre := []string{"0x", "0X", "0b", "0o", "0_"}[rtChoose("base", 5)]
		for _, b := range wb {
			rtAssume(rtNot(rtIn(b, "pP"))) // 0x1p5 is a hexadecimal float: a number
		}
		text = append([]byte(pre), text...)
		wb = append([]byte(pre), wb...)
	}
	if rtParam("MB") == 1 { // one multi-byte character in the middle: a letter stays as it is, anything else is escaped
		mb := []string{"\xc3\xa9", "\xe2\x80\x94", "\xe2\x82\xac", "\xc2\xa7", "\xf0\x9f\x98\x80"}[rtChoose("mb", 5)]
		isLetter := mb == "\xc3\xa9"
		var t2, w2 []byte
		t2 = append(t2, 'x')
		w2 = append(w2, 'x')
		if !isLetter {
			t2 = append(t2, '\\')
		}
		t2 = append(t2, mb...)
		w2 = append(w2, mb...)
		t2 = append(t2, text...)
		w2 = append(w2, wb...)
		text, wb = t2, w2
	}
	w := string(wb)
	// AND / OR / NOT / TO are keywords, not bare words
	up := strings.ToUpper(w)
	rtAssume(rtNot(rtOr(rtOr(up == "AND", up == "OR"), rtOr(up == "NOT", up == "TO"))))
	if hasWild {
		rtTag("escaped-wildcard")
	}
	if hasBackslash {
		rtTag("escaped-backslash")
	}
	if rtParam("CTXV") == 1 {
		quoteUnderDefaultField(w, string(text))
		return
	}
	q := "f:" + string(text)
	rtObserve("query", q)
	e, err := lucene.Parse(q)
	rtAssert("escaped-parses", err == nil && e != nil)
	if err != nil || e == nil {
		return
	}
	rtAssert("escaped-tree-verbatim", e.Op == expr.Equals && rtAnd(litColumn(e.Left, "f"), litString(e.Right, w)))
	rtReach("end")
}
