//go:build verif

package zzverif

import (
	"strings"
	"unicode/utf8"

	lucene "github.com/grindlemire/go-lucene"
	"github.com/grindlemire/go-lucene/pkg/lucene/expr"
)

func init() {
	register("QuoteVerbatim", H_QuoteVerbatim)
	register("EscapeVerbatim", H_EscapeVerbatim)
}

// pgStringConst decodes a PostgreSQL string constant (standard_conforming_strings = on) that
// starts at sql[i] == '\''. It returns the decoded value and the index after the constant.
func pgStringConst(sql string, i int) (string, int, bool) {
	if i >= len(sql) || sql[i] != '\'' {
		return "", i, false
	}
	var out []byte
	i++
	for i < len(sql) {
		if sql[i] == '\'' {
			if i+1 < len(sql) && sql[i+1] == '\'' {
				out = append(out, '\'')
				i += 2
				continue
			}
			return string(out), i + 1, true
		}
		out = append(out, sql[i])
		i++
	}
	return "", i, false
}

// H_QuoteVerbatim (C08, quoting clause): any text without a double quote written between double
// quotes is one string value equal to that text, in the tree, in the inline SQL constant as
// PostgreSQL decodes it, and in the parameter list.
func H_QuoteVerbatim() {
	n := rtParam("N")
	wb := rtBytes("w", n)
	for _, b := range wb {
		rtAssume(b != '"')
		rtAssume(b != 0)
	}
	w := string(wb)
	rtAssume(utf8.ValidString(w))
	text := "f:\"" + w + "\""
	e, err := lucene.Parse(text)
	rtAssert("quoted-parses", err == nil && e != nil)
	if err != nil || e == nil {
		return
	}
	rtAssert("quoted-tree-verbatim", e.Op == expr.Equals && rtAnd(litColumn(e.Left, "f"), litString(e.Right, w)))
	if w == "*" {
		rtTag("w=*")
	}
	sql, rerr := lucene.ToPostgres(text)
	rtAssert("quoted-renders", rerr == nil)
	if rerr == nil {
		rtObserve("sql", sql)
		ast, _, okp := pgParse(sql)
		okp = okp && ast.kind == qCmp && ast.op == "=" && ast.a.kind == qCol && ast.b.kind == qStr
		rtAssert("quoted-sql-shape", okp && ast.a.text == "f")
		if okp {
			rtAssert("quoted-sql-constant-verbatim", ast.b.text == w)
		}
	}
	psql, params, perr := lucene.ToParameterizedPostgres(text)
	rtAssert("quoted-param-renders", perr == nil)
	if perr == nil {
		rtObserve("psql", psql)
		ok := len(params) == 1
		if ok {
			s, isStr := params[0].(string)
			ok = isStr && s == w
		}
		past, np, pok := pgParse(psql)
		rtAssert("quoted-param-verbatim", pok && np == 1 && past.kind == qCmp && past.op == "=" && past.a.kind == qCol && past.a.text == "f" && past.b.kind == qParam && ok)
	}
	rtReach("end")
}

const plainWordCls = "ABCDEFGHIJKLMNOPQRSTUVWXYZabcdefghijklmnopqrstuvwxyz0123456789_"

// H_EscapeVerbatim (C08, escaping clause): a non-numeric text written as a bare word with a
// backslash before each special character denotes exactly that text as a plain value.
func H_EscapeVerbatim() {
	n := rtParam("N")
	wb := rtBytes("w", n)
	var text []byte
	hasWild, hasBackslash := false, false
	for i, b := range wb {
		rtAssume(b < 0x80)
		rtAssume(b != 0)
		if i == 0 {
			// keep numbers and inf/nan spellings out ("do not look like numbers")
			rtAssume(rtNot(rtIn(b, "0123456789+-.iInN")))
		}
		if rtIn(b, plainWordCls) {
			text = append(text, b)
		} else {
			text = append(text, '\\', b)
			if b == '*' || b == '?' {
				hasWild = true
			}
			if b == '\\' {
				hasBackslash = true
			}
		}
	}
	w := string(wb)
	// AND / OR / NOT / TO are keywords, not bare words
	up := strings.ToUpper(w)
	rtAssume(rtNot(rtOr(rtOr(up == "AND", up == "OR"), rtOr(up == "NOT", up == "TO"))))
	if hasWild {
		rtTag("escaped-wildcard")
	}
	if hasBackslash {
		rtTag("escaped-backslash")
	}
	q := "f:" + string(text)
	rtObserve("query", q)
	e, err := lucene.Parse(q)
	rtAssert("escaped-parses", err == nil && e != nil)
	if err != nil || e == nil {
		return
	}
	rtAssert("escaped-tree-verbatim", e.Op == expr.Equals && rtAnd(litColumn(e.Left, "f"), litString(e.Right, w)))
	rtReach("end")
}
