//go:build verif

package zzverif

import (
	"errors"
	"strconv"

	lucene "github.com/grindlemire/go-lucene"
	"github.com/grindlemire/go-lucene/pkg/driver"
	"github.com/grindlemire/go-lucene/pkg/lucene/expr"
)

func init() {
	register("ParamAPI", H_ParamAPI)
	register("DriverFold", H_DriverFold)
	register("UnsupportedOps", H_UnsupportedOps)
}

type foldCall struct {
	regOp       expr.Operator // operator the called function was registered for
	left, right string
	ret         string
	failed      bool
}

type foldTracer struct {
	log    []foldCall
	failAt int // index of the call that returns an error (-1 = none)
	retLen int // length of the fresh symbolic string every call returns
}

var errInjected = errors.New("injected render error")

func (tr *foldTracer) fn(op expr.Operator) driver.RenderFN {
	return func(left, right string) (string, error) {
		ret := string(rtBytes("ret", tr.retLen))
		c := foldCall{regOp: op, left: left, right: right, ret: ret}
		if len(tr.log) == tr.failAt {
			c.failed = true
			tr.log = append(tr.log, c)
			return ret, errInjected
		}
		tr.log = append(tr.log, c)
		return ret, nil
	}
}

var allOperators = []expr.Operator{expr.And, expr.Or, expr.Equals, expr.Like, expr.Not, expr.Range, expr.Must, expr.MustNot,
	expr.Boost, expr.Fuzzy, expr.Literal, expr.Wild, expr.Regexp, expr.Greater, expr.Less, expr.GreaterEq, expr.LessEq, expr.In, expr.List}

func countNodes(v any) int {
	switch x := v.(type) {
	case *expr.Expression:
		if x == nil {
			return 0
		}
		return 1 + countNodes(x.Left) + countNodes(x.Right)
	case []*expr.Expression:
		n := 0
		for _, e := range x {
			n += countNodes(e)
		}
		return n
	case *expr.RangeBoundary:
		return countNodes(x.Min) + countNodes(x.Max)
	}
	return 0
}

func hasOp(v any, op expr.Operator) bool {
	switch x := v.(type) {
	case *expr.Expression:
		if x == nil {
			return false
		}
		return x.Op == op || hasOp(x.Left, op) || hasOp(x.Right, op)
	case []*expr.Expression:
		for _, e := range x {
			if hasOp(e, op) {
				return true
			}
		}
	case *expr.RangeBoundary:
		return hasOp(x.Min, op) || hasOp(x.Max, op)
	}
	return false
}

type foldChecker struct {
	log []foldCall
	pos int
	ok  bool // conjunction of all comparisons (symbolic)
	bad bool // structural mismatch (concrete)
	// renderings of the items of the list or of the bounds of the boundary expect() saw last
	parts []string
}

// carriesInOrder reports whether every part occurs in hay, in order and without overlap
// (leftmost matching, which finds such an arrangement whenever one exists).
func carriesInOrder(hay string, parts []string) bool {
	pos := 0
	for _, p := range parts {
		found := false
		for i := pos; i+len(p) <= len(hay); i++ {
			if hay[i:i+len(p)] == p {
				pos = i + len(p)
				found = true
				break
			}
		}
		if !found {
			return false
		}
	}
	return true
}

func intString(i int) string { return strconv.Itoa(i) }

func sqlQuote(s string) string {
	var b []byte
	b = append(b, '\'')
	for i := 0; i < len(s); i++ {
		if s[i] == '\'' {
			b = append(b, '\'')
		}
		b = append(b, s[i])
	}
	return string(append(b, '\''))
}

// expect returns the string the README's contract says v renders to, consuming log entries in
// post-order.
func (c *foldChecker) expect(v any) string {
	switch x := v.(type) {
	case nil:
		return ""
	case *expr.Expression:
		l := c.expect(x.Left)
		lparts := c.parts
		r := c.expect(x.Right)
		rparts := c.parts
		if c.bad || c.pos >= len(c.log) {
			c.bad = true
			return ""
		}
		e := c.log[c.pos]
		c.pos++
		if e.regOp != x.Op {
			c.bad = true
		}
		// how a list (items joined) or a range boundary (both bounds in one string) is laid out is
		// an internal protocol the property does not fix: of those arguments only that they carry
		// the rendering of every item, in order, is compared
		_, leftIsList := x.Left.([]*expr.Expression)
		_, rightIsBoundary := x.Right.(*expr.RangeBoundary)
		if !leftIsList {
			c.ok = rtAnd(c.ok, rtOr(e.left == l, e.left == "("+l+")"))
		} else if !carriesInOrder(e.left, lparts) {
			c.ok = false
		}
		if !rightIsBoundary {
			c.ok = rtAnd(c.ok, rtOr(e.right == r, e.right == "("+r+")"))
		} else if !carriesInOrder(e.right, rparts) {
			c.ok = false
		}
		c.parts = nil
		return e.ret
	case []*expr.Expression:
		s := ""
		var parts []string
		for i, e := range x {
			if i > 0 {
				s += ", "
			}
			it := c.expect(e)
			parts = append(parts, it)
			s += it
		}
		c.parts = parts
		return s
	case *expr.RangeBoundary:
		mn := c.expect(x.Min)
		mx := c.expect(x.Max)
		c.parts = []string{mn, mx}
		if x.Inclusive {
			return "[" + mn + ", " + mx + "]"
		}
		return "(" + mn + ", " + mx + ")"
	case expr.Column:
		return "\"" + string(x) + "\""
	case string:
		return sqlQuote(x)
	case int:
		return intString(x)
	case float64:
		if x == 1.5 {
			return "1.5"
		}
	}
	c.bad = true
	return ""
}

// collectExprs lists every expression node of the tree.
func collectExprs(v any, out []*expr.Expression) []*expr.Expression {
	switch x := v.(type) {
	case *expr.Expression:
		if x == nil {
			return out
		}
		out = append(out, x)
		out = collectExprs(x.Left, out)
		out = collectExprs(x.Right, out)
	case []*expr.Expression:
		for _, e := range x {
			out = collectExprs(e, out)
		}
	case *expr.RangeBoundary:
		if x != nil {
			out = collectExprs(x.Min, out)
			out = collectExprs(x.Max, out)
		}
	}
	return out
}

// cutLists shortens every value list to its first item; it reports whether there was one.
func cutLists(v any) bool {
	switch x := v.(type) {
	case *expr.Expression:
		if x == nil {
			return false
		}
		if x.Op == expr.List {
			if items, ok := x.Left.([]*expr.Expression); ok && len(items) > 1 {
				x.Left = items[:1]
				return true
			}
		}
		l := cutLists(x.Left)
		r := cutLists(x.Right)
		return l || r
	case []*expr.Expression:
		any := false
		for _, e := range x {
			if cutLists(e) {
				any = true
			}
		}
		return any
	}
	return false
}

// H_DriverFold (C15): Base.Render folds the tree bottom-up with exactly the supplied functions.
func H_DriverFold() {
	t := genTree(rtParam("D"), treeOps(), leafForms())
	text := printNode(t, 0, &printOpts{})
	rtObserve("text", text)
	e, err := lucene.Parse(text)
	if err != nil || e == nil {
		rtAssume(false)
		return
	}
	if rtParam("ONEITEM") == 1 { // value lists cut to their first item (a tree the expr API or JSON can build)
		if !cutLists(e) {
			rtAssume(false)
			return
		}
	}
	undef := rtParam("UNDEF") == 1 // one node's operator is not an operator at all (a tree JSON or the expr API can build)
	if undef {
		all := collectExprs(e, nil)
		all[rtChoose("undefnode", len(all))].Op = expr.Undefined
	}
	nodes := countNodes(e)
	mode := rtParam("MODE") // 0 plain fold, 1 one call fails, 2 one operator missing from the map
	tr := &foldTracer{failAt: -1, retLen: rtParam("RETLEN")}
	fns := map[expr.Operator]driver.RenderFN{}
	for _, op := range allOperators {
		fns[op] = tr.fn(op)
	}
	removed := expr.Undefined
	switch mode {
	case 1:
		tr.failAt = rtChoose("failat", nodes)
	case 2:
		removed = allOperators[rtChoose("removed", len(allOperators))]
		delete(fns, removed)
	}
	b := driver.Base{RenderFNs: fns}
	out, rerr := b.Render(e)
	if undef { // no map can hold a function for it: Render fails and emits nothing
		rtAssert("fold-missing-is-error", rerr != nil)
		rtAssert("fold-missing-no-partial-sql", out == "")
		rtReach("end")
		return
	}
	switch mode {
	case 0:
		rtAssert("fold-no-error", rerr == nil)
		ck := &foldChecker{log: tr.log, ok: true}
		root := ck.expect(e)
		rtAssert("fold-visits-each-node-once", !ck.bad && ck.pos == len(tr.log) && len(tr.log) == nodes)
		rtAssert("fold-arguments", ck.ok)
		rtAssert("fold-result-is-root", out == root)
	case 1:
		rtAssert("fold-error-propagates", rerr != nil)
		rtAssert("fold-stops-at-error", len(tr.log) == tr.failAt+1)
	case 2:
		if hasOp(e, removed) {
			rtAssert("fold-missing-is-error", rerr != nil)
			rtAssert("fold-missing-no-partial-sql", out == "")
		} else {
			rtAssert("fold-no-error", rerr == nil)
		}
	}
	rtReach("end")
}

// H_UnsupportedOps (C15, last clause): fuzzy and boost anywhere make both renderers fail.
func H_UnsupportedOps() {
	t := genTree(rtParam("D"), treeOps(), leafForms())
	if countKind(t, nBoost)+countKind(t, nFuzzy) == 0 {
		rtAssume(false)
		return
	}
	text := printNode(t, 0, &printOpts{})
	rtObserve("text", text)
	if _, err := lucene.Parse(text); err != nil {
		rtAssume(false)
		return
	}
	s, err := lucene.ToPostgres(text)
	rtAssert("fuzzy-boost-inline-fails", err != nil && s == "")
	ps, _, perr := lucene.ToParameterizedPostgres(text)
	rtAssert("fuzzy-boost-param-fails", perr != nil && ps == "")
	if rtParam("PRIV") != 1 {
		rtReach("end")
		return
	}
	// a driver of one's own is one's own: registering functions on it changes nothing for the
	// package-level driver behind ToPostgres
	d := driver.NewPostgresDriver()
	_, hadF := d.RenderFNs[expr.Fuzzy]
	_, hadB := d.RenderFNs[expr.Boost]
	ok := func(left, right string) (string, error) { return left, nil }
	d.RenderFNs[expr.Fuzzy], d.RenderFNs[expr.Boost] = ok, ok
	s2, err2 := lucene.ToPostgres(text)
	ps2, _, perr2 := lucene.ToParameterizedPostgres(text)
	if !hadF {
		delete(d.RenderFNs, expr.Fuzzy)
	}
	if !hadB {
		delete(d.RenderFNs, expr.Boost)
	}
	rtAssert("private-driver-is-private", err2 != nil && s2 == "" && perr2 != nil && ps2 == "")
	rtReach("end")
}

// H_ParamAPI (C04): placeholder count and parameter order on value lists only the exported API
// (or JSON) can build: items that carry no parameter (a column, a bare *) or several (a nested list).
func H_ParamAPI() {
	s1, s2 := holeStr(), holeStr()
	_, i1 := holeInt()
	var e *expr.Expression
	var want []any
	switch rtChoose("shape", 4) {
	case 0:
		e = expr.IN("a", expr.LIST([]*expr.Expression{expr.Lit(expr.Column("b")), expr.Lit(s1), expr.Lit(i1)}))
		want = []any{s1, i1}
	case 1:
		e = expr.IN("a", expr.LIST([]*expr.Expression{expr.Lit(s1), expr.Lit(expr.Column("b")), expr.Lit(s2)}))
		want = []any{s1, s2}
	case 2:
		e = expr.AND(expr.IN("a", expr.LIST([]*expr.Expression{expr.Lit(s1), expr.Lit(expr.Column("b"))})), expr.Eq("c", s2))
		want = []any{s1, s2}
	default:
		e = expr.IN("a", expr.LIST([]*expr.Expression{expr.Lit(i1), expr.Lit(s1)}))
		want = []any{i1, s1}
	}
	if expr.Validate(e) != nil {
		rtAssume(false)
		return
	}
	psql, params, perr := pg.RenderParam(e)
	if perr != nil {
		rtReach("param-error")
		return
	}
	rtObserve("psql", psql)
	rtAssert("param-count", countPlaceholders(psql) == len(params))
	rtAssert("param-values-in-order", sameParams(params, want))
	rtReach("end")
}
