//go:build verif

package zzverif

// T tier: expression-tree specifications with symbolic leaves, a reference printer that uses
// only the documented precedence table, and a matcher that compares a parsed expression with
// the specification (no constructor of the code under test is involved in the expectation).

import (
	"github.com/grindlemire/go-lucene/pkg/lucene/expr"
)

const (
	nLeaf = iota
	nOr
	nAnd
	nNot
	nBoost
	nFuzzy
	nMustNot
	nMust
	nGroup // field:(E) with E an AND of bare terms (field grouping)
)

// precedence levels, loosest first: OR 1, AND 2, NOT 3, ^ 4, ~ 5, - 6, + 7, atoms 8
var level = map[int]int{nOr: 1, nAnd: 2, nNot: 3, nBoost: 4, nFuzzy: 5, nMustNot: 6, nMust: 7, nLeaf: 8, nGroup: 8}

const (
	lfBare = iota // a bare string term
	lfEqStr       // f:v
	lfEqInt       // f:5
	lfBareInt     // 5
	lfGt
	lfGe
	lfLt
	lfLe
	lfRangeIncl // f:[i TO j]
	lfRangeExcl // f:{i TO j}
	lfRangeLo   // f:[* TO j]
	lfRangeHi   // f:[i TO *]
	lfRangeStr  // f:[a TO b]
	lfList      // f:(v OR w)
	lfWild      // f:x*
	lfRegexp    // f:/x/
	lfQuoted    // f:"x y"
	lfFloat     // f:1.5
	lfBareWild  // b*
	lfCount
	// forms used by the SQL tiers only
	lfRangeExclStr  // f:{a TO b}
	lfRangeStrLo    // f:[* TO b]
	lfRangeStrHi    // f:[a TO *]
	lfRangeAll      // f:[* TO *]
	lfRangeExclLo   // f:{* TO 5}
	lfRangeExclHi   // f:{5 TO *}
	lfRangeFloat    // f:[1.5 TO 2.5]
	lfRangeFloatEx  // f:{0.001 TO 0.002}
	lfListInt       // f:(1 OR 2)
	lfWildMid       // f:b*c
	lfRegexpShort   // f:/b/
	lfSpecialFloat  // f:NaN, f:Inf, f:-Inf
	lfRangeComma    // f:["a,b" TO "c"]  (a string bound containing a comma)
	lfEqSpecial     // f:"it's, x"  (quote, comma, space in an equality value)
	lfEmptyQuoted   // f:""
	lfBareQuotedWild // "b*" as a bare term: quoted, so a string
	lfWildField     // b*:v  (a field name containing a wildcard character)
	lfQuotedDigits  // f:"5"  (a quoted number is a string)
	lfRangeMixed    // f:[1 TO 2.5]
	lfQuotedNasty   // f:"x%y" with bytes that matter to formatting and quoting
	lfRegexpNasty   // f:/x%y/
	lfRangeBig      // f:[9007199254740993 TO *]  (an integer that float64 cannot hold)
	lfEqBig         // f:9007199254740993
	lfNonASCII      // f:"é" style two-byte UTF-8 text
	lfRangeWhole    // f:[2.0 TO 1e6]  (float bounds with whole values)
	lfQuotedWild    // f:"b*"  (quoted, so a string; the JSON decoder infers a pattern from the text)
	lfQuotedRegexp  // f:"/bc/"
	lfFloatWhole    // f:5.0
	lfWildEsc       // f:b\ c*  (an escaped non-wildcard character inside a pattern)
	lfWildEscWild   // f:b\**  (an escaped wildcard character inside a pattern is a literal)
	lfWildUnderscore // f:b_*  (an underscore in a pattern is a literal)
	lfWildPunct     // f:b.c* / f:b-c*
	lfListMixed     // f:(1 OR 2.5)
	lfRegexpBackslash // f:/x\\/  (a regexp whose pattern ends in an escaped backslash)
	lfWildEscTail   // f:b?\*  (the pattern ends in an escaped wildcard character)
	lfNonASCII3     // f:"x<3-byte rune>" incl. U+FFFD written out
	lfWildRun       // f:b*?  (two wildcard characters in a row)
	lfFloatLong     // f:0.123456789 / f:123456.789  (decimals beyond float32 precision)
	lfGtFloatLong   // f:>123456.789
	lfRangeSpecialLo // f:[nan TO 5]  (a range bound that spells a non-finite float is a string)
	lfRangeSpecialHi // f:[b TO inf]
	lfListNested    // f:(a OR (b OR c))  (a value list whose parentheses nest to the right)
	lfListLeftNested // f:((a OR b) OR c)
	lfNumFieldRegexp // 5:/ab/  (a number in field position with a regexp value)
	lfNumFieldWild  // 5:b*
	lfFloatExp      // f:1e21 / f:0.00001  (floats whose shortest text is in exponent form)
	lfRangeQuotedSpace // f:["b c" TO "d e"]  (string bounds containing a space)
	lfRangeLong     // f:[xxxx...(120) TO z]  (a bound longer than any fixed look-ahead)
	lfList11        // f:(a OR b OR ... ) with 11 items
	lfEqHuge        // f:12345678901234567890  (an integer beyond int64: Parse keeps it as a float64)
	lfRangeWildLo   // f:[b* TO c]  (a string bound that contains a wildcard character stays a string)
	lfRangeWildHi   // f:[b TO c?]
	lfAllCount
)

var leafNames = []string{"bare", "eq-str", "eq-int", "bare-int", "gt", "ge", "lt", "le", "range-incl", "range-excl", "range-lo", "range-hi",
	"range-str", "list", "wild", "regexp", "quoted", "float", "bare-wild", "", "range-excl-str", "range-str-lo", "range-str-hi", "range-all",
	"range-excl-lo", "range-excl-hi", "range-float", "range-float-excl", "list-int", "wild-mid", "regexp-short", "special-float", "range-str-comma", "eq-special", "empty-quoted", "bare-quoted-wild", "wild-field", "quoted-digits", "range-mixed", "quoted-nasty", "regexp-nasty", "range-big", "eq-big", "non-ascii", "range-whole-float", "quoted-wild", "quoted-regexp", "float-whole", "wild-esc", "wild-esc-wild", "wild-underscore", "wild-punct", "list-mixed", "regexp-backslash", "wild-esc-tail", "non-ascii-3", "wild-run", "float-long", "gt-float-long", "range-special-lo", "range-special-hi", "list-nested", "list-left-nested", "num-field-regexp", "num-field-wild", "float-exp", "range-quoted-space", "range-long", "list-11", "eq-huge", "range-wild-lo", "range-wild-hi"}

// concreteFields makes field names the fixed sequence p, q, r, ... (one per leaf) instead of
// symbolic bytes; used where rows have to be looked up by name.
var concreteFields = false
var nextField = 0

var smallLeaves = []int{lfBare, lfEqStr, lfEqInt}

type leaf struct {
	form   int
	field  string
	s1, s2 string // string payloads (symbolic bytes)
	s3     string
	d1, d2 string // digit strings as written
	i1, i2 int    // their values
}

type node struct {
	field string // for nGroup
	kind int
	l, r *node
	num  int // explicit power / distance (only meaningful when hasNum)
	hasNum bool
	lf   *leaf
}

const fieldCls = "abcdefghjklmopqrstuvwxyz" // no i, n: strconv looks for inf/nan prefixes and would fork on them
const strFirst = "bcdefghjklm" // first byte of string values: keeps AND/OR/NOT/TO and numbers out
const strRest = "abcdefghijklmnopqrstuvwxyz"

func holeByte(name, cls string) byte {
	b := rtByte(name)
	rtAssume(rtIn(b, cls))
	return b
}

func holeField() string {
	if concreteFields {
		nextField++
		return string([]byte{byte('o' + nextField)})
	}
	return string([]byte{holeByte("field", fieldCls)})
}
func holeStr() string   { return string([]byte{holeByte("str", strFirst), holeByte("str", strRest)}) }

// signedInts makes holeInt also produce negative numbers (SQL tiers).
var signedInts = false

// oneDigitInts makes holeInt produce single digits only (no forking on the digit count).
var oneDigitInts = false

// holeInt returns a 1-2 digit number as written and its value (no leading zero when 2 digits).
func holeInt() (string, int) {
	if signedInts && rtChoose("sign", 2) == 1 {
		d := holeByte("digit", "123456789")
		return string([]byte{'-', d}), -int(d - '0')
	}
	if oneDigitInts || rtChoose("digits", 2) == 0 {
		d := holeByte("digit", "0123456789")
		return string([]byte{d}), int(d - '0')
	}
	d0 := holeByte("digit", "123456789")
	d1 := holeByte("digit", "0123456789")
	return string([]byte{d0, d1}), int(d0-'0')*10 + int(d1-'0')
}

func genLeaf(forms []int) *node {
	f := forms[rtChoose("leaf", len(forms))]
	lf := &leaf{form: f}
	switch f {
	case lfBare:
		lf.s1 = holeStr()
	case lfBareInt:
		lf.d1, lf.i1 = holeInt()
	case lfEqStr:
		lf.field, lf.s1 = holeField(), holeStr()
	case lfEqInt, lfGt, lfGe, lfLt, lfLe, lfRangeLo, lfRangeHi:
		lf.field = holeField()
		lf.d1, lf.i1 = holeInt()
	case lfRangeIncl, lfRangeExcl:
		lf.field = holeField()
		lf.d1, lf.i1 = holeInt()
		lf.d2, lf.i2 = holeInt()
	case lfRangeStr, lfList:
		lf.field, lf.s1, lf.s2 = holeField(), holeStr(), holeStr()
	case lfWild:
		lf.field = holeField()
		lf.s1 = string([]byte{holeByte("str", strFirst), holeByte("wc", "*?")})
	case lfRegexp:
		lf.field = holeField()
		lf.s1 = string([]byte{'/', holeByte("str", strRest), holeByte("re", strRest+".*"), '/'})
	case lfQuoted:
		lf.field = holeField()
		lf.s1 = string([]byte{holeByte("str", strRest), ' ', holeByte("str", strRest+":()")})
	case lfFloat:
		lf.field = holeField()
	case lfBareWild:
		lf.s1 = string([]byte{holeByte("str", strFirst), holeByte("wc", "*?")})
	case lfRangeExclStr:
		lf.field, lf.s1, lf.s2 = holeField(), holeStr(), holeStr()
	case lfRangeStrLo, lfRangeStrHi:
		lf.field, lf.s1 = holeField(), holeStr()
	case lfRangeAll, lfRangeFloat, lfRangeFloatEx, lfRangeWhole:
		lf.field = holeField()
	case lfRangeExclLo, lfRangeExclHi:
		lf.field = holeField()
		lf.d1, lf.i1 = holeInt()
	case lfListInt:
		lf.field = holeField()
		lf.d1, lf.i1 = holeInt()
		lf.d2, lf.i2 = holeInt()
	case lfWildMid:
		lf.field = holeField()
		lf.s1 = string([]byte{holeByte("str", strFirst), holeByte("wc", "*?"), holeByte("str", strRest)})
	case lfRegexpShort:
		lf.field = holeField()
		lf.s1 = string([]byte{'/', holeByte("re", strRest+"."), '/'})
	case lfQuotedWild:
		lf.field = holeField()
		lf.s1 = string([]byte{holeByte("str", strFirst), holeByte("wc", "*?")})
	case lfQuotedRegexp:
		lf.field = holeField()
		lf.s1 = string([]byte{'/', holeByte("str", strRest), holeByte("str", strRest), '/'})
	case lfFloatWhole:
		lf.field = holeField()
		lf.d1 = string([]byte{holeByte("digit", "0123456789"), '.', '0'})
	case lfRangeWildLo:
		lf.field = holeField()
		lf.s1 = string([]byte{holeByte("str", strFirst), holeByte("wc", "*?")})
		lf.s2 = holeStr()
	case lfRangeWildHi:
		lf.field = holeField()
		lf.s1 = holeStr()
		lf.s2 = string([]byte{holeByte("str", strFirst), holeByte("wc", "*?")})
	case lfRangeComma:
		lf.field = holeField()
		lf.s1 = string([]byte{holeByte("str", strFirst), ',', holeByte("str", strRest)})
		lf.s2 = string([]byte{'x', holeByte("str", strRest)})
	case lfEqSpecial:
		lf.field = holeField()
		lf.s1 = string([]byte{holeByte("str", strRest), '\'', ',', ' ', holeByte("str", strRest+"';-/\\")})
	case lfEmptyQuoted:
		lf.field = holeField()
	case lfBareQuotedWild:
		lf.s1 = string([]byte{holeByte("str", strFirst), holeByte("wc", "*?")})
	case lfWildField:
		lf.field = string([]byte{holeByte("field", fieldCls), holeByte("wc", "*?")})
		lf.s1 = holeStr()
	case lfQuotedDigits:
		lf.field = holeField()
		lf.s1 = string([]byte{holeByte("digit", "0123456789"), holeByte("digit", "0123456789")})
	case lfRangeMixed:
		lf.field = holeField()
		lf.d1, lf.i1 = holeInt()
	case lfQuotedNasty:
		lf.field = holeField()
		lf.s1 = string([]byte{holeByte("str", strRest), holeByte("nasty", "%'\\ ;-d"), holeByte("nasty", "%'\\ ;-dsv")})
	case lfRegexpNasty:
		lf.field = holeField()
		lf.s1 = string([]byte{'/', holeByte("str", strRest), holeByte("nasty", "%'; -"), holeByte("nasty", "%';dsv"), '/'})
	case lfRangeBig, lfEqBig:
		lf.field = holeField()
		lf.d1, lf.i1 = "9007199254740993", 9007199254740993
	case lfRegexpBackslash:
		lf.field = holeField()
		lf.s1 = string([]byte{'/', holeByte("str", strRest), '\\', '\\', '/'})
	case lfWildEscTail:
		lf.field = holeField()
		lf.s1 = string([]byte{holeByte("str", strFirst), holeByte("wc", "*?"), '\\', holeByte("wc", "*?")})
	case lfNonASCII3:
		lf.field = holeField()
		lf.s1 = "x" + []string{"\xef\xbf\xbd", "\xe2\x82\xac", "\xe0\xa4\x85"}[rtChoose("rune3", 3)]
	case lfWildRun:
		lf.field = holeField()
		lf.s1 = string([]byte{holeByte("str", strFirst), holeByte("wc", "*?"), holeByte("wc", "*?")})
	case lfFloatLong, lfGtFloatLong:
		lf.field = holeField()
		lf.d1 = []string{"0.123456789", "123456.789", "100000.001"}[rtChoose("longdec", 3)]
	case lfRangeSpecialLo, lfRangeSpecialHi:
		lf.field = holeField()
		lf.s1 = []string{"nan", "inf", "Infinity", "NaN"}[rtChoose("special", 4)]
		lf.d1, lf.i1 = holeInt()
	case lfListNested, lfListLeftNested:
		lf.field, lf.s1, lf.s2 = holeField(), holeStr(), holeStr()
		lf.s3 = holeStr()
	case lfNumFieldRegexp:
		lf.field = string([]byte{holeByte("digit", "123456789")})
		lf.s1 = string([]byte{'/', holeByte("str", strRest), holeByte("re", strRest+".*"), '/'})
	case lfNumFieldWild:
		lf.field = string([]byte{holeByte("digit", "123456789")})
		lf.s1 = string([]byte{holeByte("str", strFirst), holeByte("wc", "*?")})
	case lfRangeLong:
		lf.field = holeField()
		long := make([]byte, 120)
		for i := range long {
			long[i] = 'x'
		}
		long[0] = holeByte("str", strFirst)
		lf.s1, lf.s2 = string(long), "z"
	case lfList11:
		lf.field = holeField()
		lf.s1 = holeStr()
	case lfFloatExp:
		lf.field = holeField()
		lf.d1 = []string{"1e21", "0.00001", "3e25", "1e-7"}[rtChoose("expdec", 4)]
	case lfRangeQuotedSpace:
		lf.field = holeField()
		lf.s1 = string([]byte{holeByte("str", strFirst), ' ', holeByte("str", strRest)})
		lf.s2 = string([]byte{holeByte("str", strFirst), ' ', holeByte("str", strRest)})
	case lfWildEsc:
		lf.field = holeField()
		lf.s1 = string([]byte{holeByte("str", strFirst), '\\', holeByte("escd", " :(\"+-"), holeByte("wc", "*?")})
	case lfWildEscWild:
		lf.field = holeField()
		lf.s1 = string([]byte{holeByte("str", strFirst), '\\', holeByte("wc", "*?"), holeByte("wc", "*?")})
	case lfWildUnderscore:
		lf.field = holeField()
		lf.s1 = string([]byte{holeByte("str", strFirst), '_', holeByte("wc", "*?")})
	case lfWildPunct:
		lf.field = holeField()
		lf.s1 = string([]byte{holeByte("str", strFirst), holeByte("punct", ".-"), holeByte("str", strRest), holeByte("wc", "*?")})
	case lfListMixed:
		lf.field = holeField()
		lf.d1, lf.i1 = holeInt()
	case lfEqHuge:
		lf.field = holeField()
		lf.d1 = []string{"12345678901234567890", "9223372036854775808"}[rtChoose("huge", 2)]
	case lfNonASCII:
		lf.field = holeField()
		b0 := holeByte("u0", "\xc3\xc4\xd0\xd7")
		b1 := rtByte("u1")
		rtAssume(rtAnd(b1 >= 0x80, b1 <= 0xbf))
		lf.s1 = string([]byte{'x', b0, b1})
	case lfSpecialFloat:
		lf.field = holeField()
		lf.s1 = []string{"NaN", "Inf", "infinity"}[rtChoose("special", 3)]
	}
	return &node{kind: nLeaf, lf: lf}
}

// genTree chooses a tree of at most the given depth. ops lists the operator kinds allowed.
func genTree(depth int, ops []int, forms []int) *node {
	if depth == 0 {
		return genLeaf(forms)
	}
	c := rtChoose("op", len(ops)+1)
	if c == 0 {
		return genLeaf(forms)
	}
	k := ops[c-1]
	switch k {
	case nAnd, nOr:
		return &node{kind: k, l: genTree(depth-1, ops, forms), r: genTree(depth-1, ops, forms)}
	case nGroup:
		// the group holds an AND chain of two bare strings (an OR chain would be a value list)
		g := &node{kind: nAnd, l: &node{kind: nLeaf, lf: &leaf{form: lfBare, s1: holeStr()}}, r: &node{kind: nLeaf, lf: &leaf{form: lfBare, s1: holeStr()}}}
		return &node{kind: nGroup, field: holeField(), l: g}
	case nBoost, nFuzzy:
		n := &node{kind: k, l: genTree(depth-1, ops, forms)}
		if rtChoose("num", 2) == 1 {
			n.hasNum = true
			if k == nFuzzy {
				n.num = []int{2, 3, 0}[rtChoose("numv", 3)] // a distance of 0 is accepted
			} else {
				n.num = 2 + rtChoose("numv", 2) // 2 or 3
			}
		}
		return n
	}
	return &node{kind: k, l: genTree(depth-1, ops, forms)}
}

var allOps = []int{nOr, nAnd, nNot, nBoost, nFuzzy, nMustNot, nMust}

// ---------------------------------------------------------------------------------------------
// reference printer

type printOpts struct {
	juxt      map[*node]bool // AND nodes written as juxtaposition
	extraPar  map[*node]bool // nodes wrapped in redundant parentheses
	wideSpace bool           // two spaces / tabs instead of one space
	lowerKw   bool           // and/or/not/to in lower case
	valuePar  bool           // field:(value) instead of field:value
	prefixSp  bool           // white space between a prefix operator and its operand (- a, + a)
	spaceStr  string         // when set, the white space written wherever one space stands
	numPar    bool           // redundant parentheses around a fuzzy distance / boost power: a~(2)
}

func kw(s string, o *printOpts) string {
	if o != nil && o.lowerKw {
		switch s {
		case "AND":
			return "and"
		case "OR":
			return "oR"
		case "NOT":
			return "Not"
		case "TO":
			return "to"
		}
	}
	return s
}

func numText(num int, o *printOpts) string {
	d := string([]byte{byte('0' + num)})
	if o != nil && o.numPar {
		return "(" + d + ")"
	}
	return d
}

func sp(o *printOpts) string {
	if o != nil && o.spaceStr != "" {
		return o.spaceStr
	}
	if o != nil && o.wideSpace {
		return " \t"
	}
	return " "
}

func printLeaf(lf *leaf, o *printOpts) string {
	switch lf.form {
	case lfBare, lfBareWild:
		return lf.s1
	case lfBareInt:
		return lf.d1
	case lfEqStr:
		if o != nil && o.valuePar {
			return lf.field + ":(" + lf.s1 + ")"
		}
		return lf.field + ":" + lf.s1
	case lfEqInt:
		if o != nil && o.valuePar {
			return lf.field + ":(" + lf.d1 + ")"
		}
		return lf.field + ":" + lf.d1
	case lfGt:
		return lf.field + ":>" + lf.d1
	case lfGe:
		return lf.field + ":>=" + lf.d1
	case lfLt:
		return lf.field + ":<" + lf.d1
	case lfLe:
		return lf.field + ":<=" + lf.d1
	case lfRangeIncl:
		return lf.field + ":[" + lf.d1 + sp(o) + kw("TO", o) + sp(o) + lf.d2 + "]"
	case lfRangeExcl:
		return lf.field + ":{" + lf.d1 + sp(o) + kw("TO", o) + sp(o) + lf.d2 + "}"
	case lfRangeLo:
		return lf.field + ":[*" + sp(o) + kw("TO", o) + sp(o) + lf.d1 + "]"
	case lfRangeHi:
		return lf.field + ":[" + lf.d1 + sp(o) + kw("TO", o) + sp(o) + "*]"
	case lfList11:
		out := lf.field + ":(" + lf.s1
		for i := 0; i < 10; i++ {
			out += sp(o) + kw("OR", o) + sp(o) + string([]byte{'k', byte('a' + i)})
		}
		return out + ")"
	case lfRangeStr, lfRangeWildLo, lfRangeWildHi, lfRangeLong:
		return lf.field + ":[" + lf.s1 + sp(o) + kw("TO", o) + sp(o) + lf.s2 + "]"
	case lfList:
		return lf.field + ":(" + lf.s1 + sp(o) + kw("OR", o) + sp(o) + lf.s2 + ")"
	case lfListMixed:
		return lf.field + ":(" + lf.d1 + sp(o) + kw("OR", o) + sp(o) + "2.5)"
	case lfListNested:
		return lf.field + ":(" + lf.s1 + sp(o) + kw("OR", o) + sp(o) + "(" + lf.s2 + sp(o) + kw("OR", o) + sp(o) + lf.s3 + "))"
	case lfListLeftNested:
		return lf.field + ":((" + lf.s1 + sp(o) + kw("OR", o) + sp(o) + lf.s2 + ")" + sp(o) + kw("OR", o) + sp(o) + lf.s3 + ")"
	case lfNumFieldRegexp, lfNumFieldWild:
		return lf.field + ":" + lf.s1
	case lfFloatExp:
		return lf.field + ":" + lf.d1
	case lfRangeQuotedSpace:
		return lf.field + ":[\"" + lf.s1 + "\"" + sp(o) + kw("TO", o) + sp(o) + "\"" + lf.s2 + "\"]"
	case lfWildEsc, lfWildEscWild, lfWildUnderscore, lfWildPunct, lfRegexpBackslash, lfWildEscTail, lfWildRun:
		return lf.field + ":" + lf.s1
	case lfNonASCII3:
		return lf.field + ":\"" + lf.s1 + "\""
	case lfFloatLong:
		return lf.field + ":" + lf.d1
	case lfGtFloatLong:
		return lf.field + ":>" + lf.d1
	case lfRangeSpecialLo:
		return lf.field + ":[" + lf.s1 + sp(o) + kw("TO", o) + sp(o) + lf.d1 + "]"
	case lfRangeSpecialHi:
		return lf.field + ":[" + lf.d1 + sp(o) + kw("TO", o) + sp(o) + lf.s1 + "]"
	case lfWild, lfRegexp:
		if o != nil && o.valuePar {
			return lf.field + ":(" + lf.s1 + ")"
		}
		return lf.field + ":" + lf.s1
	case lfQuoted:
		if o != nil && o.valuePar {
			return lf.field + ":(\"" + lf.s1 + "\")"
		}
		return lf.field + ":\"" + lf.s1 + "\""
	case lfFloat:
		return lf.field + ":1.5"
	case lfRangeExclStr:
		return lf.field + ":{" + lf.s1 + sp(o) + kw("TO", o) + sp(o) + lf.s2 + "}"
	case lfRangeStrLo:
		return lf.field + ":[*" + sp(o) + kw("TO", o) + sp(o) + lf.s1 + "]"
	case lfRangeStrHi:
		return lf.field + ":[" + lf.s1 + sp(o) + kw("TO", o) + sp(o) + "*]"
	case lfRangeAll:
		return lf.field + ":[*" + sp(o) + kw("TO", o) + sp(o) + "*]"
	case lfRangeExclLo:
		return lf.field + ":{*" + sp(o) + kw("TO", o) + sp(o) + lf.d1 + "}"
	case lfRangeExclHi:
		return lf.field + ":{" + lf.d1 + sp(o) + kw("TO", o) + sp(o) + "*}"
	case lfRangeFloat:
		return lf.field + ":[1.5" + sp(o) + kw("TO", o) + sp(o) + "2.5]"
	case lfRangeWhole:
		return lf.field + ":[2.0" + sp(o) + kw("TO", o) + sp(o) + "1e6]"
	case lfRangeFloatEx:
		return lf.field + ":{0.001" + sp(o) + kw("TO", o) + sp(o) + "0.002}"
	case lfListInt:
		return lf.field + ":(" + lf.d1 + sp(o) + kw("OR", o) + sp(o) + lf.d2 + ")"
	case lfWildMid, lfRegexpShort, lfSpecialFloat:
		return lf.field + ":" + lf.s1
	case lfRangeComma:
		return lf.field + ":[\"" + lf.s1 + "\"" + sp(o) + kw("TO", o) + sp(o) + "\"" + lf.s2 + "\"]"
	case lfEqSpecial, lfNonASCII:
		return lf.field + ":\"" + lf.s1 + "\""
	case lfEmptyQuoted:
		return lf.field + ":\"\""
	case lfBareQuotedWild:
		return "\"" + lf.s1 + "\""
	case lfWildField, lfRegexpNasty:
		return lf.field + ":" + lf.s1
	case lfQuotedNasty:
		return lf.field + ":\"" + lf.s1 + "\""
	case lfQuotedDigits, lfQuotedWild, lfQuotedRegexp:
		return lf.field + ":\"" + lf.s1 + "\""
	case lfFloatWhole:
		return lf.field + ":" + lf.d1
	case lfRangeMixed:
		return lf.field + ":[" + lf.d1 + sp(o) + kw("TO", o) + sp(o) + "2.5]"
	case lfRangeBig:
		return lf.field + ":[" + lf.d1 + sp(o) + kw("TO", o) + sp(o) + "*]"
	case lfEqBig, lfEqHuge:
		return lf.field + ":" + lf.d1
	}
	return "?"
}

// endsOpen reports whether the printed text of n ends with a bare ^ or ~ (default power/distance),
// after which a following term would be read as the number.
func endsOpen(n *node) bool {
	for {
		switch n.kind {
		case nBoost, nFuzzy:
			return !n.hasNum
		case nAnd, nOr:
			n = n.r
		case nNot, nMust, nMustNot:
			n = n.l
		default:
			return false
		}
	}
}

// print writes n so that it can stand where an operand of at least level min is required.
func printNode(n *node, min int, o *printOpts) string {
	var s string
	lv := level[n.kind]
	switch n.kind {
	case nLeaf:
		s = printLeaf(n.lf, o)
	case nOr:
		s = printNode(n.l, lv, o) + sp(o) + kw("OR", o) + sp(o) + printNode(n.r, lv+1, o)
	case nAnd:
		l := printNode(n.l, lv, o)
		r := printNode(n.r, lv+1, o)
		if o != nil && o.juxt[n] {
			s = l + sp(o) + r
		} else {
			s = l + sp(o) + kw("AND", o) + sp(o) + r
		}
	case nNot:
		s = kw("NOT", o) + sp(o) + printNode(n.l, lv, o)
	case nMustNot:
		// -5 would be one literal token: a number under MUSTNOT is parenthesised
		if n.l.kind == nLeaf && n.l.lf.form == lfBareInt {
			s = "-(" + printNode(n.l, 0, o) + ")"
		} else if o != nil && o.prefixSp {
			s = "- " + printNode(n.l, lv, o)
		} else {
			s = "-" + printNode(n.l, lv, o)
		}
	case nGroup:
		s = n.field + ":(" + printNode(n.l, 0, o) + ")"
	case nMust:
		if o != nil && o.prefixSp {
			s = "+\t" + printNode(n.l, lv, o)
		} else {
			s = "+" + printNode(n.l, lv, o)
		}
	case nBoost:
		s = printNode(n.l, lv, o) + "^"
		if n.hasNum {
			s += numText(n.num, o)
		}
	case nFuzzy:
		s = printNode(n.l, lv, o) + "~"
		if n.hasNum {
			s += numText(n.num, o)
		}
	}
	if lv < min || (o != nil && o.extraPar[n]) {
		return "(" + s + ")"
	}
	return s
}

// ---------------------------------------------------------------------------------------------
// matcher: parsed expression vs specification. The result is built without forking.

func expDec(d string) float64 {
	switch d {
	case "1e21":
		return 1e21
	case "0.00001":
		return 0.00001
	case "3e25":
		return 3e25
	}
	return 1e-7
}

func asExpr(v any) *expr.Expression {
	e, _ := v.(*expr.Expression)
	return e
}

func litString(v any, want string) bool {
	e := asExpr(v)
	if e == nil || e.Op != expr.Literal || e.Right != nil {
		return false
	}
	s, ok := e.Left.(string)
	return ok && s == want
}

func litInt(v any, want int) bool {
	e := asExpr(v)
	if e == nil || e.Op != expr.Literal || e.Right != nil {
		return false
	}
	i, ok := e.Left.(int)
	return ok && i == want
}

func litColumn(v any, want string) bool {
	e := asExpr(v)
	if e == nil || e.Op != expr.Literal || e.Right != nil {
		return false
	}
	c, ok := e.Left.(expr.Column)
	return ok && string(c) == want
}

func litKind(v any, op expr.Operator, want string) bool {
	e := asExpr(v)
	if e == nil || e.Op != op || e.Right != nil {
		return false
	}
	s, ok := e.Left.(string)
	return ok && s == want
}

func matchLeaf(e *expr.Expression, lf *leaf, df string) bool {
	switch lf.form {
	case lfBare:
		if df != "" {
			return e.Op == expr.Equals && rtAnd(litColumn(e.Left, df), litString(e.Right, lf.s1))
		}
		return litString(e, lf.s1)
	case lfBareInt:
		if df != "" {
			return e.Op == expr.Equals && rtAnd(litColumn(e.Left, df), litInt(e.Right, lf.i1))
		}
		return litInt(e, lf.i1)
	case lfBareWild:
		if df != "" {
			return e.Op == expr.Like && rtAnd(litColumn(e.Left, df), litKind(e.Right, expr.Wild, lf.s1))
		}
		return litKind(e, expr.Wild, lf.s1)
	case lfEqStr:
		return e.Op == expr.Equals && rtAnd(litColumn(e.Left, lf.field), litString(e.Right, lf.s1))
	case lfQuoted, lfEqSpecial, lfNonASCII, lfEmptyQuoted, lfWildField, lfQuotedDigits:
		return e.Op == expr.Equals && rtAnd(litColumn(e.Left, lf.field), litString(e.Right, lf.s1))
	case lfBareQuotedWild:
		if df != "" {
			return e.Op == expr.Equals && rtAnd(litColumn(e.Left, df), litString(e.Right, lf.s1))
		}
		return litString(e, lf.s1)
	case lfEqInt, lfEqBig:
		return e.Op == expr.Equals && rtAnd(litColumn(e.Left, lf.field), litInt(e.Right, lf.i1))
	case lfEqHuge:
		if e.Op != expr.Equals || !litColumn(e.Left, lf.field) {
			return false
		}
		rh := asExpr(e.Right)
		if rh == nil || rh.Op != expr.Literal {
			return false
		}
		fh, okh := rh.Left.(float64)
		return okh && ((lf.d1 == "12345678901234567890" && fh == 12345678901234567890.0) || (lf.d1 == "9223372036854775808" && fh == 9223372036854775808.0))
	case lfFloat:
		if e.Op != expr.Equals || !litColumn(e.Left, lf.field) {
			return false
		}
		r := asExpr(e.Right)
		if r == nil || r.Op != expr.Literal {
			return false
		}
		f, ok := r.Left.(float64)
		return ok && f == 1.5
	case lfGt:
		return e.Op == expr.Greater && rtAnd(litColumn(e.Left, lf.field), litInt(e.Right, lf.i1))
	case lfGe:
		return e.Op == expr.GreaterEq && rtAnd(litColumn(e.Left, lf.field), litInt(e.Right, lf.i1))
	case lfLt:
		return e.Op == expr.Less && rtAnd(litColumn(e.Left, lf.field), litInt(e.Right, lf.i1))
	case lfLe:
		return e.Op == expr.LessEq && rtAnd(litColumn(e.Left, lf.field), litInt(e.Right, lf.i1))
	case lfRangeMixed:
		if e.Op != expr.Range {
			return false
		}
		bm, okm := e.Right.(*expr.RangeBoundary)
		if !okm || bm == nil || !bm.Inclusive {
			return false
		}
		mx := asExpr(bm.Max)
		if mx == nil || mx.Op != expr.Literal {
			return false
		}
		f, isF := mx.Left.(float64)
		return isF && f == 2.5 && rtAnd(litColumn(e.Left, lf.field), litInt(bm.Min, lf.i1))
	case lfRangeIncl, lfRangeExcl, lfRangeLo, lfRangeHi, lfRangeStr, lfRangeBig:
		if e.Op != expr.Range {
			return false
		}
		b, ok := e.Right.(*expr.RangeBoundary)
		if !ok || b == nil {
			return false
		}
		res := litColumn(e.Left, lf.field)
		switch lf.form {
		case lfRangeIncl:
			return b.Inclusive && rtAnd(res, rtAnd(litInt(b.Min, lf.i1), litInt(b.Max, lf.i2)))
		case lfRangeExcl:
			return !b.Inclusive && rtAnd(res, rtAnd(litInt(b.Min, lf.i1), litInt(b.Max, lf.i2)))
		case lfRangeLo:
			return b.Inclusive && rtAnd(res, rtAnd(litKind(b.Min, expr.Wild, "*"), litInt(b.Max, lf.i1)))
		case lfRangeHi, lfRangeBig:
			return b.Inclusive && rtAnd(res, rtAnd(litInt(b.Min, lf.i1), litKind(b.Max, expr.Wild, "*")))
		default:
			return b.Inclusive && rtAnd(res, rtAnd(litString(b.Min, lf.s1), litString(b.Max, lf.s2)))
		}
	case lfListNested, lfListLeftNested:
		if e.Op != expr.In {
			return false
		}
		l3 := asExpr(e.Right)
		if l3 == nil || l3.Op != expr.List {
			return false
		}
		items3, ok3 := l3.Left.([]*expr.Expression)
		if !ok3 || len(items3) != 3 {
			return false
		}
		return rtAnd(litColumn(e.Left, lf.field), rtAnd(litString(items3[0], lf.s1), rtAnd(litString(items3[1], lf.s2), litString(items3[2], lf.s3))))
	case lfList11:
		if e.Op != expr.In {
			return false
		}
		l11 := asExpr(e.Right)
		if l11 == nil || l11.Op != expr.List {
			return false
		}
		items11, ok11 := l11.Left.([]*expr.Expression)
		if !ok11 || len(items11) != 11 {
			return false
		}
		res11 := rtAnd(litColumn(e.Left, lf.field), litString(items11[0], lf.s1))
		for i := 0; i < 10; i++ {
			res11 = rtAnd(res11, litString(items11[i+1], string([]byte{'k', byte('a' + i)})))
		}
		return res11
	case lfRangeQuotedSpace, lfRangeLong:
		if e.Op != expr.Range {
			return false
		}
		bq, okq := e.Right.(*expr.RangeBoundary)
		if !okq || bq == nil || !bq.Inclusive {
			return false
		}
		return rtAnd(litColumn(e.Left, lf.field), rtAnd(litString(bq.Min, lf.s1), litString(bq.Max, lf.s2)))
	case lfFloatExp:
		if e.Op != expr.Equals || !litColumn(e.Left, lf.field) {
			return false
		}
		rx := asExpr(e.Right)
		if rx == nil || rx.Op != expr.Literal {
			return false
		}
		fx, okx := rx.Left.(float64)
		return okx && fx == expDec(lf.d1)
	case lfList:
		if e.Op != expr.In {
			return false
		}
		l := asExpr(e.Right)
		if l == nil || l.Op != expr.List {
			return false
		}
		items, ok := l.Left.([]*expr.Expression)
		if !ok || len(items) != 2 {
			return false
		}
		return rtAnd(litColumn(e.Left, lf.field), rtAnd(litString(items[0], lf.s1), litString(items[1], lf.s2)))
	case lfListInt:
		if e.Op != expr.In {
			return false
		}
		l := asExpr(e.Right)
		if l == nil || l.Op != expr.List {
			return false
		}
		items, ok := l.Left.([]*expr.Expression)
		if !ok || len(items) != 2 {
			return false
		}
		return rtAnd(litColumn(e.Left, lf.field), rtAnd(litInt(items[0], lf.i1), litInt(items[1], lf.i2)))
	case lfWild:
		return e.Op == expr.Like && rtAnd(litColumn(e.Left, lf.field), litKind(e.Right, expr.Wild, lf.s1))
	case lfRegexp, lfRegexpBackslash:
		return e.Op == expr.Like && rtAnd(litColumn(e.Left, lf.field), litKind(e.Right, expr.Regexp, lf.s1))
	case lfNonASCII3:
		return e.Op == expr.Equals && rtAnd(litColumn(e.Left, lf.field), litString(e.Right, lf.s1))
	}
	return false
}

// matchTree: df is the default field the parse ran with ("" for none): bare terms are then
// expected as df:term wherever they are an operand or the whole query.
func matchTree(v any, n *node, df string) bool {
	e := asExpr(v)
	if e == nil {
		return false
	}
	switch n.kind {
	case nLeaf:
		return matchLeaf(e, n.lf, df)
	case nAnd:
		return e.Op == expr.And && rtAnd(matchTree(e.Left, n.l, df), matchTree(e.Right, n.r, df))
	case nOr:
		return e.Op == expr.Or && rtAnd(matchTree(e.Left, n.l, df), matchTree(e.Right, n.r, df))
	case nNot:
		return e.Op == expr.Not && e.Right == nil && matchTree(e.Left, n.l, df)
	case nGroup:
		// terms inside a field group belong to that field: never to the default field
		return e.Op == expr.Equals && rtAnd(litColumn(e.Left, n.field), matchTree(e.Right, n.l, ""))
	case nMust:
		return e.Op == expr.Must && e.Right == nil && matchTree(e.Left, n.l, df)
	case nMustNot:
		return e.Op == expr.MustNot && e.Right == nil && matchTree(e.Left, n.l, df)
	case nBoost:
		want := 1.0
		if n.hasNum {
			want = float64(n.num)
		}
		return e.Op == expr.Boost && e.Right == nil && expr.VerifBoostPower(e) == want && matchTree(e.Left, n.l, df)
	case nFuzzy:
		want := 1
		if n.hasNum {
			want = n.num
		}
		return e.Op == expr.Fuzzy && e.Right == nil && expr.VerifFuzzyDistance(e) == want && matchTree(e.Left, n.l, df)
	}
	return false
}

func countKind(n *node, k int) int {
	if n == nil {
		return 0
	}
	c := countKind(n.l, k) + countKind(n.r, k)
	if n.kind == k {
		c++
	}
	return c
}

func collect(n *node, k int, out []*node) []*node {
	if n == nil {
		return out
	}
	out = collect(n.l, k, out)
	if n.kind == k || k < 0 {
		out = append(out, n)
	}
	return collect(n.r, k, out)
}
