//go:build verif

package zzverif

import (
	"encoding/json"
	"fmt"

	lucene "github.com/grindlemire/go-lucene"
	"github.com/grindlemire/go-lucene/pkg/lucene/expr"
)

func init() {
	register("JSONRoundTrip", H_JSONRoundTrip)
	register("JSONBytes", H_JSONBytes)
	register("JSONDoc", H_JSONDoc)
}

// consumers runs everything C13 lists on a decoded, validated expression.
func consumers(d *expr.Expression) {
	_ = d.String()
	_ = fmt.Sprintf("%#v", d)
	_, _ = json.Marshal(d)
	_, _ = pg.Render(d)
	_, _, _ = pg.RenderParam(d)
}

// H_JSONRoundTrip (C12): encode, decode, validate, re-encode, print and render identically.
func H_JSONRoundTrip() {
	t := genTree(rtParam("D"), treeOps(), leafForms())
	text := printNode(t, 0, &printOpts{})
	rtObserve("text", text)
	e, err := lucene.Parse(text)
	if err != nil || e == nil {
		rtAssume(false)
		return
	}
	b, merr := json.Marshal(e)
	rtAssert("encodes", merr == nil)
	if merr != nil {
		return
	}
	rtObserve("json", string(b))
	var d expr.Expression
	if rtParam("REUSE") == 1 { // the target has been used before: decoding replaces, it does not merge
		_ = json.Unmarshal([]byte("{\"left\":\"p\",\"operator\":\"EQUALS\",\"right\":\"q\"}"), &d)
	}
	uerr := json.Unmarshal(b, &d)
	rtAssert("decodes", uerr == nil)
	if uerr != nil {
		return
	}
	rtAssert("decoded-validates", expr.Validate(&d) == nil)
	b2, merr2 := json.Marshal(&d)
	rtAssert("reencodes-identically", merr2 == nil && string(b2) == string(b))
	rtAssert("prints-identically", d.String() == e.String())
	s1, r1 := pg.Render(e)
	s2, r2 := pg.Render(&d)
	rtAssert("renders-identically", (r1 == nil) == (r2 == nil) && s1 == s2)
	p1, a1, q1 := pg.RenderParam(e)
	p2, a2, q2 := pg.RenderParam(&d)
	rtAssert("renders-param-identically", (q1 == nil) == (q2 == nil) && p1 == p2 && len(a1) == len(a2))
	if !kindChanging(t) {
		rtAssert("deep-equal", matchTree(&d, t, ""))
	}
	rtReach("end")
}

// kindChanging: the tree has a leaf whose kind the decoder infers differently from its text
// (a quoted string with * or ?, a quoted /slash-delimited/ string, an integer-valued float);
// C12 waives deep equality for those and nothing else.
func kindChanging(t *node) bool {
	for _, n := range collect(t, nLeaf, nil) {
		switch n.lf.form {
		case lfQuotedWild, lfQuotedRegexp, lfFloatWhole, lfBareQuotedWild, lfRangeWhole:
			return true
		}
	}
	return false
}

// H_JSONBytes (C13): decoding any byte sequence returns a value or an error, never panics;
// a decoded expression that validates can be printed, encoded and rendered.
func H_JSONBytes() {
	data := rtBytes("data", rtParam("N"))
	var d expr.Expression
	err := json.Unmarshal(data, &d)
	if err != nil {
		rtReach("decode-error")
		return
	}
	rtReach("decoded")
	if expr.Validate(&d) != nil {
		rtReach("invalid")
		return
	}
	rtReach("valid")
	consumers(&d)
	rtReach("end")
}

var opNames = []string{"AND", "OR", "EQUALS", "LIKE", "NOT", "RANGE", "MUST", "MUST_NOT", "BOOST", "FUZZY", "LITERAL", "WILD", "REGEXP",
	"GREATER", "LESS", "GREATER_EQ", "LESS_EQ", "IN", "LIST"}

// jsonStr writes a JSON string literal whose content needs no escaping.
func jsonStr(s string) string { return "\"" + s + "\"" }

const jsonPlain = " !#$%()*+,-./0123456789:;=?@ABCXYZ[]^_`abcxyz{|}~"

func jsonHoleStr(n int) string {
	b := make([]byte, n)
	for i := range b {
		b[i] = holeByte("js", jsonPlain)
	}
	return jsonStr(string(b))
}

// jsonValue chooses one member value: scalars, arrays and nested expression objects.
func jsonValue(depth int) string {
	n := 9
	if depth == 0 {
		n = 7
	}
	switch rtChoose("val", n) {
	case 0:
		return jsonHoleStr(rtChoose("slen", 3)) // "", 1, 2 symbolic bytes
	case 1:
		d := holeByte("num", "0123456789")
		return string([]byte{d})
	case 2:
		return "1.5"
	case 3:
		return "null"
	case 4:
		return "true"
	case 5:
		return "[" + jsonHoleStr(1) + "," + jsonHoleStr(1) + "]"
	case 6:
		return "[]"
	case 7:
		return jsonObject(depth - 1)
	default:
		return jsonBoundary()
	}
}

// jsonBackslashStr: a string of three units out of an (escaped) backslash, *, ? and a letter.
func jsonBackslashStr() string {
	out := "\""
	for i := 0; i < 3; i++ {
		out += []string{"\\\\", "*", "?", "a"}[rtChoose("bsunit", 4)]
	}
	return out + "\""
}

// jsonBoundary chooses a range-boundary object, complete or with "min"/"max" missing as direct
// members but occurring deeper down.
func jsonBoundary() string {
	switch bshapeOf(rtChoose("bshape", bshapeCount())) {
	case 1: // "min" occurs only below "max"
		return "{\"max\":{\"min\":1,\"max\":" + jsonValue(0) + "},\"inclusive\":true}"
	case 2: // "max" occurs only in an unknown member
		return "{\"min\":" + jsonValue(0) + ",\"x\":{\"max\":2}}"
	case 3: // no "inclusive"
		return "{\"min\":1,\"max\":" + jsonValue(0) + "}"
	}
	return "{\"min\":" + jsonValue(0) + ",\"max\":" + jsonValue(0) + ",\"inclusive\":" + []string{"true", "false", "1"}[rtChoose("incl", 3)] + "}"
}

// BSHAPE selects the boundary layouts: 0 the plain one only, 1 all four, 10+k the plain one and layout k.
func bshapeCount() int {
	switch b := rtParam("BSHAPE"); {
	case b == 1:
		return 4
	case b >= 10:
		return 2
	}
	return 1
}

func bshapeOf(c int) int {
	if b := rtParam("BSHAPE"); b >= 10 && c == 1 {
		return b - 10
	}
	return c
}

// jsonObject chooses an expression object: any subset of the schema's members with values of
// any JSON type, operator names from the table or arbitrary short strings.
func jsonObject(depth int) string {
	out := "{"
	sep := ""
	if rtParam("BS") == 1 { // strings with backslashes and wildcard characters in the literal positions
		switch rtChoose("bsdoc", 4) {
		case 0:
			return jsonBackslashStr() // the document is the string itself
		case 1:
			return "{\"left\":" + jsonBackslashStr() + ",\"operator\":\"EQUALS\",\"right\":\"v\"}"
		case 2:
			return "{\"left\":\"a\",\"operator\":" + jsonStr([]string{"EQUALS", "LIKE"}[rtChoose("op", 2)]) + ",\"right\":" + jsonBackslashStr() + "}"
		}
		return "{\"left\":\"a\",\"operator\":\"RANGE\",\"right\":{\"min\":" + jsonBackslashStr() + ",\"max\":\"z\",\"inclusive\":true}}"
	}
	if rtParam("NEST") == 1 { // an operator object (any operator, scalar members of the wrong shape) below a well-formed parent
		scalar := func(name string) string {
			switch rtChoose(name, 4) {
			case 0:
				return ""
			case 1:
				return "\"" + name + "\":\"b\""
			case 2:
				return "\"" + name + "\":5"
			}
			return "\"" + name + "\":[\"x\",\"y\"]"
		}
		inner := "{"
		sep := ""
		if l := scalar("left"); l != "" {
			inner += l
			sep = ","
		}
		inner += sep + "\"operator\":" + jsonStr(opNames[rtChoose("op", len(opNames))])
		if r := scalar("right"); r != "" {
			inner += "," + r
		}
		inner += "}"
		switch rtChoose("outer", 5) {
		case 0:
			return "{\"left\":\"a\",\"operator\":\"EQUALS\",\"right\":" + inner + "}"
		case 1:
			return "{\"left\":" + inner + ",\"operator\":\"NOT\"}"
		case 2:
			return "{\"left\":\"a\",\"operator\":\"AND\",\"right\":" + inner + "}"
		case 3:
			return "{\"left\":" + inner + ",\"operator\":\"EQUALS\",\"right\":\"v\"}"
		}
		return "{\"left\":\"a\",\"operator\":\"GREATER\",\"right\":" + inner + "}"
	}
	rb := rtParam("RB") == 1 && depth == rtParam("D") // the root's right member is a boundary object
	if rb {
		if rtChoose("hasleft", 2) == 0 {
			out += "\"left\":\"a\""
			sep = ","
		}
		out += sep + "\"operator\":" + jsonStr([]string{"RANGE", "EQUALS", "AND"}[rtChoose("op", 3)])
		out += ",\"right\":" + jsonBoundary()
		return out + "}"
	}
	if rtChoose("hasleft", 2) == 0 {
		out += "\"left\":" + jsonValue(depth)
		sep = ","
	}
	switch c := rtChoose("op", len(opNames)+3); {
	case c < len(opNames):
		out += sep + "\"operator\":" + jsonStr(opNames[c])
		sep = ","
	case c == len(opNames):
		out += sep + "\"operator\":" + jsonHoleStr(2)
		sep = ","
	case c == len(opNames)+1:
		out += sep + "\"operator\":5"
		sep = ","
	}
	if rtChoose("hasright", 2) == 1 {
		out += sep + "\"right\":" + jsonValue(depth)
		sep = ","
	}
	nExtras := 4
	if rtParam("LITE") == 1 {
		nExtras = 2
	}
	if rtParam("PW") == 1 { // boost powers and fuzzy distances only the API / JSON can produce
		switch rtChoose("pw", 4) {
		case 1:
			return out + sep + "\"power\":0}"
		case 2:
			return out + sep + "\"power\":-2.5}"
		case 3:
			return out + sep + "\"distance\":-1}"
		}
		return out + "}"
	}
	switch rtChoose("extras", nExtras) {
	case 1:
		out += sep + "\"distance\":" + string([]byte{holeByte("num", "0123456789")}) + ",\"power\":2.5"
	case 2:
		out += sep + "\"distance\":\"x\",\"power\":null,\"boundaries\":{\"min\":1,\"max\":2,\"inclusive\":true}"
	case 3:
		out += sep + "\"distance\":1.5,\"extra\":[1,{\"a\":null}]"
	}
	return out + "}"
}

// H_JSONDoc (C13): well-formed documents over the expression schema with arbitrary operator
// names and missing, extra, null and wrongly typed members.
func H_JSONDoc() {
	doc := jsonObject(rtParam("D"))
	rtObserve("doc", doc)
	var d expr.Expression
	err := json.Unmarshal([]byte(doc), &d)
	if err != nil {
		rtReach("decode-error")
		return
	}
	rtReach("decoded")
	if expr.Validate(&d) != nil {
		rtReach("invalid")
		return
	}
	rtReach("valid")
	consumers(&d)
	rtReach("end")
}
