//go:build verif

package zzverif

// Token slots for the K tier: a slot is 4 symbolic bytes constrained BY FORMULA (no forking) to
// spell exactly one token, padded with spaces. The real lexer and parser then fork lazily as
// they read, so a sequence the parser rejects after two tokens costs two tokens.

const slotW = 4

const symChars = "()[]{}:+=>~^<-"
const wordChars = "ABCDEFGHIJKLMNOPQRSTUVWXYZabcdefghijklmnopqrstuvwxyz0123456789_*?"

func and3(a, b, c bool) bool { return rtAnd(a, rtAnd(b, c)) }
func and4(a, b, c, d bool) bool { return rtAnd(rtAnd(a, b), rtAnd(c, d)) }
func or3(a, b, c bool) bool  { return rtOr(a, rtOr(b, c)) }

func isSp(b byte) bool { return b == ' ' }

// wordByte: a byte that continues a bare word (ASCII only in this tier)
func wordByte(b byte) bool { return rtIn(b, wordChars+".-") }

// wordStart: first byte of a bare word ('.' cannot start a token; '-' only before a digit, see below)
func wordStart(b byte) bool { return rtIn(b, wordChars) }

func notIn(b byte, set string) bool { return rtNot(rtIn(b, set)) }

func ascii(b byte) bool { return b < 0x80 }


// slotNarrow: the same token kinds with kind-pure, narrow literal classes, so that one slot
// costs a few dozen paths instead of thousands (literal *content* is explored by the wide slot
// with K=1 and by the byte tier; this alphabet explores *structure*).
func slotNarrow(b []byte) bool {
	b0, b1, b2, b3 := b[0], b[1], b[2], b[3]
	sp1, sp2, sp3 := isSp(b1), isSp(b2), isSp(b3)
	const lower = "abcdefghijklmnopqrstuvwxyz"
	const digit = "0123456789"
	sym := and4(rtIn(b0, symChars), sp1, sp2, sp3)
	kw := rtOr(
		rtOr(and4(b0 == 'A', b1 == 'N', b2 == 'D', sp3), and4(b0 == 'N', b1 == 'O', b2 == 'T', sp3)),
		rtOr(and4(b0 == 'O', b1 == 'R', sp2, sp3), and4(b0 == 'T', b1 == 'O', sp2, sp3)))
	plain := rtOr(and4(rtIn(b0, lower), sp1, sp2, sp3), and4(rtIn(b0, lower), rtIn(b1, lower), sp2, sp3))
	num := or3(and4(rtIn(b0, digit), sp1, sp2, sp3), and4(rtIn(b0, digit), rtIn(b1, digit), sp2, sp3), and4(b0 == '-', rtIn(b1, digit), sp2, sp3))
	flt := rtOr(and4(b0 == '1', b1 == '.', b2 == '5', sp3), and4(b0 == '2', b1 == '.', b2 == '0', sp3))
	wild := or3(and4(rtIn(b0, "*?"), sp1, sp2, sp3), and4(rtIn(b0, lower), rtIn(b1, "*?"), sp2, sp3), and4(rtIn(b0, "*?"), rtIn(b1, lower), sp2, sp3))
	esc := and4(b0 == '\\', rtIn(b1, " :*\\(\"-"), sp2, sp3)
	q := rtOr(b0 == '"', b0 == '\'')
	quoted := rtOr(and4(q, b1 == b0, sp2, sp3), and4(q, rtIn(b1, lower+" *:"), b2 == b0, sp3))
	re := rtOr(and4(b0 == '/', b1 == '/', sp2, sp3), and4(b0 == '/', rtIn(b1, lower+"*."), b2 == '/', sp3))
	return rtOr(or3(sym, kw, plain), rtOr(or3(num, flt, wild), or3(esc, quoted, re)))
}

// slotOK is the disjunction of all token shapes for one slot, with wide literal classes.
func slotOK(b []byte) bool {
	b0, b1, b2, b3 := b[0], b[1], b[2], b[3]
	sp1, sp2, sp3 := isSp(b1), isSp(b2), isSp(b3)
	// one-character symbols
	sym := and4(rtIn(b0, symChars), sp1, sp2, sp3)
	// keywords (upper case; case variants are C09's business)
	kw := rtOr(
		rtOr(and4(b0 == 'A', b1 == 'N', b2 == 'D', sp3), and4(b0 == 'N', b1 == 'O', b2 == 'T', sp3)),
		rtOr(and4(b0 == 'O', b1 == 'R', sp2, sp3), and4(b0 == 'T', b1 == 'O', sp2, sp3)))
	// bare words of 1..3 bytes (digits make numbers, * ? make patterns, '-' before a digit a negative number)
	w1 := and4(wordStart(b0), sp1, sp2, sp3)
	w2 := and4(rtOr(wordStart(b0), rtAnd(b0 == '-', rtIn(b1, "0123456789"))), wordByte(b1), sp2, sp3)
	w3 := and4(rtOr(wordStart(b0), rtAnd(b0 == '-', rtIn(b1, "0123456789"))), wordByte(b1), wordByte(b2), sp3)
	// escapes: backslash + any ASCII byte counts as one unit
	e2 := and4(b0 == '\\', ascii(b1), sp2, sp3)
	e3a := and4(b0 == '\\', ascii(b1), wordByte(b2), sp3)
	e3b := and4(wordStart(b0), b1 == '\\', ascii(b2), sp3)
	word := rtOr(or3(w1, w2, w3), or3(e2, e3a, e3b))
	// quoted phrases with 0..2 content bytes (either quote character)
	q := rtOr(b0 == '"', b0 == '\'')
	q0 := and4(q, b1 == b0, sp2, sp3)
	q1 := and4(q, rtAnd(b1 != b0, ascii(b1)), b2 == b0, sp3)
	q2 := and4(q, rtAnd(b1 != b0, ascii(b1)), rtAnd(b2 != b0, ascii(b2)), b3 == b0)
	quoted := or3(q0, q1, q2)
	// regexps /x/ with 0..2 content bytes (a backslash takes the next byte with it)
	r0 := and4(b0 == '/', b1 == '/', sp2, sp3)
	r1 := and4(b0 == '/', and3(b1 != '/', b1 != '\\', ascii(b1)), b2 == '/', sp3)
	r2 := and4(b0 == '/', rtOr(and3(b1 != '/', b1 != '\\', ascii(b1)), b1 == '\\'), rtAnd(rtOr(b2 != '/', b1 == '\\'), rtAnd(rtOr(b2 != '\\', b1 == '\\'), ascii(b2))), b3 == '/')
	re := or3(r0, r1, r2)
	return rtOr(rtOr(sym, kw), rtOr(word, rtOr(quoted, re)))
}

// tokenSlots returns K constrained slots as one input string.
func tokenSlots(k int, wide bool) string {
	buf := make([]byte, 0, k*slotW)
	for i := 0; i < k; i++ {
		b := rtBytes("slot", slotW)
		if wide {
			rtAssume(slotOK(b))
		} else {
			rtAssume(slotNarrow(b))
		}
		buf = append(buf, b...)
	}
	return string(buf)
}

// ---------------------------------------------------------------------------------------------
// shape slots: the token kind of a slot is a forking choice, its literal bytes are symbolic and
// constrained one byte at a time (so the engine's byte-domain procedure decides them).

type shape struct {
	name  string
	parts []string // each part: a class name starting with '@', or literal text
}

const lowerCls = "abcdefghijklmnopqrstuvwxyz"
const digitCls = "0123456789"

var classes = map[string]string{
	"@sym":   symChars,
	"@lower": lowerCls,
	"@lowernk": "abcdefghijklmnpqrsuvwxyz", // first byte of a two-letter word: no o, t (or / to are keywords)
	"@digit": digitCls,
	"@wc":    "*?",
	"@escd":  " :*\\(\"-",
	"@qc":    lowerCls + " *:",
	"@rc":    lowerCls + "*.",
	"@bad":   "!#$%&,;@|`.", // bytes that cannot start a token
}

var narrowShapes = []shape{
	{"sym", []string{"@sym"}},
	{"AND", []string{"AND"}}, {"OR", []string{"OR"}}, {"NOT", []string{"NOT"}}, {"TO", []string{"TO"}},
	{"plain1", []string{"@lower"}}, {"plain2", []string{"@lowernk", "@lower"}},
	{"int1", []string{"@digit"}}, {"int2", []string{"@digit", "@digit"}}, {"neg", []string{"-", "@digit"}},
	{"float", []string{"1.5"}},
	{"wild1", []string{"@wc"}}, {"wild2", []string{"@lower", "@wc"}}, {"wild3", []string{"@wc", "@lower"}},
	{"esc", []string{"\\", "@escd"}},
	{"dq0", []string{"\"\""}}, {"dq1", []string{"\"", "@qc", "\""}},
	{"sq1", []string{"'", "@qc", "'"}},
	{"re0", []string{"//"}}, {"re1", []string{"/", "@rc", "/"}},
	{"bad", []string{"@bad"}},
}

// shapeBytes appends the bytes of one slot of the given shape.
func shapeBytes(buf []byte, sh shape) []byte {
	for _, p := range sh.parts {
		if p[0] == '@' && len(p) > 1 {
			b := rtByte("lit")
			rtAssume(rtIn(b, classes[p]))
			buf = append(buf, b)
		} else {
			buf = append(buf, p...)
		}
	}
	return buf
}

// shapeSlots builds K slots separated by single spaces.
func shapeSlots(k int) string {
	var buf []byte
	shapes := ctxShapes() // SHAPES=1: one representative per token kind
	for i := 0; i < k; i++ {
		c := rtChoose("shape", len(shapes))
		if i > 0 {
			buf = append(buf, ' ')
		}
		buf = shapeBytes(buf, shapes[c])
	}
	return string(buf)
}
