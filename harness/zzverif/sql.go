//go:build verif

package zzverif

import (
	"strings"
	"unicode/utf8"
)

// A model of the PostgreSQL fragment the renderers can emit: lexer (quoted identifiers with "",
// string constants with '' under standard_conforming_strings=on, numbers, operators, keywords,
// placeholders), a precedence-climbing parser following PostgreSQL's table
//   OR < AND < NOT < comparison (= < > <= >=) < BETWEEN / IN / SIMILAR TO < other operators (~)
// that rejects everything outside the confined fragment of C02, and an evaluator over non-NULL
// rows. The model is validated against PostgreSQL's real parser (pg_query) natively.

const (
	sqEOF = iota
	sqIdent   // "quoted identifier"
	sqString  // 'string constant'
	sqNumber  // 123, -5, 1.50
	sqParam   // ?
	sqLParen
	sqRParen
	sqComma
	sqOp      // = < > <= >= ~
	sqKeyword // AND OR NOT BETWEEN IN SIMILAR TO
	sqBad
)

type sqTok struct {
	kind int
	text string // decoded value for idents/strings, spelling otherwise
}

func isUpperLetter(b byte) bool { return b >= 'A' && b <= 'Z' }
func isIdentByte(b byte) bool {
	return b == '_' || (b >= 'a' && b <= 'z') || (b >= 'A' && b <= 'Z') || (b >= '0' && b <= '9')
}

func lowerASCII(s string) string {
	b := []byte(s)
	for i := range b {
		if b[i] >= 'A' && b[i] <= 'Z' {
			b[i] += 32
		}
	}
	return string(b)
}
func isDigitB(b byte) bool      { return b >= '0' && b <= '9' }

// pgLex splits sql into tokens; anything the fragment does not contain (comments, semicolons,
// unquoted identifiers, dollar quoting, casts ...) becomes sqBad.
func pgLex(sql string) []sqTok {
	var out []sqTok
	i := 0
	for i < len(sql) {
		c := sql[i]
		switch {
		case c == ' ':
			i++
		case c == '"':
			var val []byte
			i++
			closed := false
			for i < len(sql) {
				if sql[i] == '"' {
					if i+1 < len(sql) && sql[i+1] == '"' {
						val = append(val, '"')
						i += 2
						continue
					}
					closed = true
					i++
					break
				}
				val = append(val, sql[i])
				i++
			}
			if !closed || len(val) == 0 {
				return append(out, sqTok{sqBad, "unterminated or empty identifier"})
			}
			out = append(out, sqTok{sqIdent, string(val)})
		case c == '\'':
			val, end, ok := pgStringConst(sql, i)
			if !ok {
				return append(out, sqTok{sqBad, "unterminated string"})
			}
			out = append(out, sqTok{sqString, val})
			i = end
		case isDigitB(c) || (c == '-' && i+1 < len(sql) && isDigitB(sql[i+1])):
			j := i + 1
			for j < len(sql) && (isDigitB(sql[j]) || sql[j] == '.') {
				j++
			}
			out = append(out, sqTok{sqNumber, sql[i:j]})
			i = j
		case c == '?':
			out = append(out, sqTok{sqParam, "?"})
			i++
		case c == '(':
			out = append(out, sqTok{sqLParen, "("})
			i++
		case c == ')':
			out = append(out, sqTok{sqRParen, ")"})
			i++
		case c == ',':
			out = append(out, sqTok{sqComma, ","})
			i++
		case c == '=' || c == '~':
			out = append(out, sqTok{sqOp, string([]byte{c})})
			i++
		case c == '<' || c == '>':
			if i+1 < len(sql) && sql[i+1] == '=' {
				out = append(out, sqTok{sqOp, sql[i : i+2]})
				i += 2
			} else {
				out = append(out, sqTok{sqOp, string([]byte{c})})
				i++
			}
		case isUpperLetter(c):
			j := i
			for j < len(sql) && isUpperLetter(sql[j]) {
				j++
			}
			w := sql[i:j]
			switch w {
			case "AND", "OR", "NOT", "BETWEEN", "IN", "SIMILAR", "TO":
				if j < len(sql) && isIdentByte(sql[j]) {
					// a longer unquoted word: an identifier, folded to lower case by PostgreSQL
					k := j
					for k < len(sql) && isIdentByte(sql[k]) {
						k++
					}
					out = append(out, sqTok{sqIdent, lowerASCII(sql[i:k])})
					i = k
					continue
				}
				out = append(out, sqTok{sqKeyword, w})
			default:
				k := j
				for k < len(sql) && isIdentByte(sql[k]) {
					k++
				}
				out = append(out, sqTok{sqIdent, lowerASCII(sql[i:k])})
				j = k
			}
			i = j
		case c == '_' || (c >= 'a' && c <= 'z'):
			// unquoted identifier (PostgreSQL folds it to lower case): a column reference
			k := i
			for k < len(sql) && isIdentByte(sql[k]) {
				k++
			}
			out = append(out, sqTok{sqIdent, lowerASCII(sql[i:k])})
			i = k
		default:
			return append(out, sqTok{sqBad, "character"})
		}
	}
	return out
}

const (
	qAnd = iota
	qOr
	qNot
	qCmp     // op in text: = < > <= >=
	qBetween // a BETWEEN b AND c
	qIn      // a IN (list)
	qSimilar
	qRegex // a ~ b
	qCol
	qStr
	qNum
	qParam
)

type sqNode struct {
	kind    int
	op      string
	a, b, c *sqNode
	list    []*sqNode
	text    string
	pidx    int // parameter index for qParam
}

type sqParser struct {
	t      []sqTok
	pos    int
	bad    bool
	params int
}

func (p *sqParser) peek() sqTok {
	if p.pos < len(p.t) {
		return p.t[p.pos]
	}
	return sqTok{kind: sqEOF}
}

func (p *sqParser) isKw(w string) bool {
	t := p.peek()
	return t.kind == sqKeyword && t.text == w
}

func (p *sqParser) expr() *sqNode {
	n := p.andExpr()
	for !p.bad && p.isKw("OR") {
		p.pos++
		n = &sqNode{kind: qOr, a: n, b: p.andExpr()}
	}
	return n
}

func (p *sqParser) andExpr() *sqNode {
	n := p.notExpr()
	for !p.bad && p.isKw("AND") {
		p.pos++
		n = &sqNode{kind: qAnd, a: n, b: p.notExpr()}
	}
	return n
}

func (p *sqParser) notExpr() *sqNode {
	if p.isKw("NOT") {
		p.pos++
		return &sqNode{kind: qNot, a: p.notExpr()}
	}
	return p.cmpExpr()
}

func (p *sqParser) cmpExpr() *sqNode {
	l := p.primary()
	if p.bad {
		return l
	}
	t := p.peek()
	switch {
	case t.kind == sqOp && t.text == "~":
		p.pos++
		return &sqNode{kind: qRegex, a: l, b: p.primary()}
	case t.kind == sqOp:
		p.pos++
		r := p.primary()
		// comparison operators do not chain
		if nt := p.peek(); nt.kind == sqOp {
			p.bad = true
		}
		return &sqNode{kind: qCmp, op: t.text, a: l, b: r}
	case t.kind == sqKeyword && t.text == "BETWEEN":
		p.pos++
		lo := p.primary()
		if !p.isKw("AND") {
			p.bad = true
			return l
		}
		p.pos++
		hi := p.primary()
		return &sqNode{kind: qBetween, a: l, b: lo, c: hi}
	case t.kind == sqKeyword && t.text == "IN":
		p.pos++
		if p.peek().kind != sqLParen {
			p.bad = true
			return l
		}
		p.pos++
		n := &sqNode{kind: qIn, a: l}
		for {
			n.list = append(n.list, p.primary())
			if p.bad {
				return n
			}
			if p.peek().kind == sqComma {
				p.pos++
				continue
			}
			break
		}
		if p.peek().kind != sqRParen {
			p.bad = true
			return n
		}
		p.pos++
		return n
	case t.kind == sqKeyword && t.text == "SIMILAR":
		p.pos++
		if !p.isKw("TO") {
			p.bad = true
			return l
		}
		p.pos++
		return &sqNode{kind: qSimilar, a: l, b: p.primary()}
	}
	return l
}

func (p *sqParser) primary() *sqNode {
	t := p.peek()
	switch t.kind {
	case sqIdent:
		p.pos++
		return &sqNode{kind: qCol, text: t.text}
	case sqString:
		p.pos++
		return &sqNode{kind: qStr, text: t.text}
	case sqNumber:
		p.pos++
		return &sqNode{kind: qNum, text: t.text}
	case sqParam:
		p.pos++
		p.params++
		return &sqNode{kind: qParam, pidx: p.params - 1}
	case sqLParen:
		p.pos++
		n := p.expr()
		if p.peek().kind != sqRParen {
			p.bad = true
			return n
		}
		p.pos++
		return n
	}
	p.bad = true
	return &sqNode{kind: qNum, text: "0"}
}

// pgParse parses one confined boolean expression; ok is false for anything else.
func pgParse(sql string) (*sqNode, int, bool) {
	// PostgreSQL (server encoding UTF8) refuses query text that is not valid UTF-8 and cannot
	// carry a NUL byte at all
	if !utf8.ValidString(sql) || strings.Contains(sql, "\x00") {
		return nil, 0, false
	}
	toks := pgLex(sql)
	for _, t := range toks {
		if t.kind == sqBad {
			return nil, 0, false
		}
	}
	if len(toks) == 0 {
		return nil, 0, false
	}
	p := &sqParser{t: toks}
	n := p.expr()
	if p.bad || p.pos != len(toks) {
		return nil, 0, false
	}
	return n, p.params, true
}

// collect gathers column names, string constants and numbers of an SQL tree in order.
func (n *sqNode) collect(cols, strs, nums *[]string) {
	if n == nil {
		return
	}
	switch n.kind {
	case qCol:
		*cols = append(*cols, n.text)
	case qStr:
		*strs = append(*strs, n.text)
	case qNum:
		*nums = append(*nums, n.text)
	}
	n.a.collect(cols, strs, nums)
	n.b.collect(cols, strs, nums)
	n.c.collect(cols, strs, nums)
	for _, e := range n.list {
		e.collect(cols, strs, nums)
	}
}

// ---------------------------------------------------------------------------------------------
// evaluation on a row (non-NULL values; integers and bytewise-compared strings)

type rowVal struct {
	isInt bool
	i     int
	s     string
}

type sqlRow struct {
	names []string
	vals  []rowVal
}

func (r *sqlRow) get(name string) (rowVal, bool) {
	for i, n := range r.names {
		if n == name {
			return r.vals[i], true
		}
	}
	return rowVal{}, false
}

// atoiDec reads an optionally signed decimal integer; ok is false for anything else.
func atoiDec(s string) (int, bool) {
	if len(s) == 0 {
		return 0, false
	}
	neg := false
	i := 0
	if s[0] == '-' {
		neg = true
		i = 1
	}
	if i >= len(s) {
		return 0, false
	}
	n := 0
	for ; i < len(s); i++ {
		if !isDigitB(s[i]) {
			return 0, false
		}
		n = n*10 + int(s[i]-'0')
	}
	if neg {
		n = -n
	}
	return n, true
}

type sqlEval struct {
	row    *sqlRow
	params []any
	bad    bool // something the evaluator does not model
	// a Boolean expression where a value is expected, or a constant where a condition is
	// expected: PostgreSQL reads the text but the predicate has no meaning
	illTyped bool
}

func (ev *sqlEval) scalar(n *sqNode) rowVal {
	switch n.kind {
	case qCol:
		v, ok := ev.row.get(n.text)
		if !ok {
			ev.bad = true
		}
		return v
	case qStr:
		return rowVal{s: n.text}
	case qNum:
		i, ok := atoiDec(n.text)
		if !ok {
			ev.bad = true
		}
		return rowVal{isInt: true, i: i}
	case qParam:
		if n.pidx >= len(ev.params) {
			ev.bad = true
			return rowVal{}
		}
		switch p := ev.params[n.pidx].(type) {
		case int:
			return rowVal{isInt: true, i: p}
		case string:
			return rowVal{s: p}
		}
	case qAnd, qOr, qNot, qCmp, qBetween, qIn, qSimilar, qRegex:
		ev.illTyped = true
	}
	ev.bad = true
	return rowVal{}
}

func cmpVals(op string, a, b rowVal) (bool, bool) {
	if a.isInt != b.isInt {
		return false, false
	}
	if a.isInt {
		switch op {
		case "=":
			return a.i == b.i, true
		case "<":
			return a.i < b.i, true
		case "<=":
			return a.i <= b.i, true
		case ">":
			return a.i > b.i, true
		case ">=":
			return a.i >= b.i, true
		}
		return false, false
	}
	switch op {
	case "=":
		return a.s == b.s, true
	case "<":
		return a.s < b.s, true
	case "<=":
		return a.s <= b.s, true
	case ">":
		return a.s > b.s, true
	case ">=":
		return a.s >= b.s, true
	}
	return false, false
}

// similarTo matches s against a SIMILAR TO pattern that uses only literal characters, %, _ and
// backslash escapes (other metacharacters make the evaluation unsupported).
func similarTo(s, pat string, unsupported *bool) bool {
	if len(pat) == 0 {
		return len(s) == 0
	}
	c := pat[0]
	switch {
	case c == '%':
		// any run
		res := false
		for k := 0; k <= len(s); k++ {
			res = rtOr(res, similarTo(s[k:], pat[1:], unsupported))
		}
		return res
	case c == '_':
		return len(s) > 0 && similarTo(s[1:], pat[1:], unsupported)
	case c == '\\':
		if len(pat) < 2 {
			*unsupported = true
			return false
		}
		return len(s) > 0 && rtAnd(s[0] == pat[1], similarTo(s[1:], pat[2:], unsupported))
	case c == '|' || c == '*' || c == '+' || c == '?' || c == '(' || c == ')' || c == '[' || c == ']' || c == '{' || c == '}':
		*unsupported = true
		return false
	}
	return len(s) > 0 && rtAnd(s[0] == c, similarTo(s[1:], pat[1:], unsupported))
}

func (ev *sqlEval) eval(n *sqNode) bool {
	switch n.kind {
	case qAnd:
		return rtAnd(ev.eval(n.a), ev.eval(n.b))
	case qOr:
		return rtOr(ev.eval(n.a), ev.eval(n.b))
	case qNot:
		return rtNot(ev.eval(n.a))
	case qCmp:
		r, ok := cmpVals(n.op, ev.scalar(n.a), ev.scalar(n.b))
		if !ok {
			ev.bad = true
		}
		return r
	case qBetween:
		x := ev.scalar(n.a)
		lo, ok1 := cmpVals(">=", x, ev.scalar(n.b))
		hi, ok2 := cmpVals("<=", x, ev.scalar(n.c))
		if !ok1 || !ok2 {
			ev.bad = true
		}
		return rtAnd(lo, hi)
	case qIn:
		x := ev.scalar(n.a)
		res := false
		for _, e := range n.list {
			r, ok := cmpVals("=", x, ev.scalar(e))
			if !ok {
				ev.bad = true
			}
			res = rtOr(res, r)
		}
		return res
	case qSimilar:
		x := ev.scalar(n.a)
		p := ev.scalar(n.b)
		if x.isInt || p.isInt {
			ev.bad = true
			return false
		}
		return similarTo(x.s, p.s, &ev.bad)
	case qStr, qNum:
		ev.illTyped = true // a constant where a condition is expected
	}
	ev.bad = true
	return false
}

// sqlTreeEqual: the two SQL trees are the same predicate up to number formatting.
func sqlTreeEqual(a, b *sqNode) bool {
	if a == nil || b == nil {
		return a == nil && b == nil
	}
	if a.kind != b.kind || a.op != b.op || len(a.list) != len(b.list) {
		return false
	}
	res := true
	switch a.kind {
	case qCol, qStr:
		res = a.text == b.text
	case qNum:
		res = normDec(a.text) == normDec(b.text)
	case qParam:
		res = a.pidx == b.pidx
	}
	res = rtAnd(res, rtAnd(sqlTreeEqual(a.a, b.a), rtAnd(sqlTreeEqual(a.b, b.b), sqlTreeEqual(a.c, b.c))))
	for i := range a.list {
		res = rtAnd(res, sqlTreeEqual(a.list[i], b.list[i]))
	}
	return res
}
