//go:build verif

package zzverif

// Derivation oracle of C06: the tree returned by Parse must be a derivation of the token
// sequence in the documented grammar (term, field:E, field:>v, field:[a TO b], (E), +E, -E,
// NOT E, E~n, E^n, E AND E, E OR E, juxtaposition). The token list comes from the harness's own
// generator (not from the lexer under test), so every token is known with its expected typed
// value; each token is consumed exactly once because the index ranges partition [0, n).

import (
	"github.com/grindlemire/go-lucene/pkg/lucene/expr"
)

const (
	tkSym = iota
	tkAnd
	tkOr
	tkNot
	tkTo
	tkTerm
	tkErr // text the lexer cannot tokenize: no grammar rule consumes it, so no accepted tree derives it
)

const (
	tvString = iota
	tvInt
	tvFloat
	tvWild
	tvRegexp
	tvSingleQuoted // '...' phrase: the lexer accepts it; either reading of the quotes is tolerated
)

type dtok struct {
	kind int
	sym  byte   // for tkSym (symbolic byte)
	tv   int    // for tkTerm
	s    string // string / wild / regexp payload as the value should read
	raw  string // as written
	i    int    // integer value
}

func symIs(t dtok, c byte) bool { return t.kind == tkSym && t.sym == c }

// shapeTokens appends the bytes of one slot and its token description.
func shapeTok(buf []byte, sh shape) ([]byte, dtok) {
	start := len(buf)
	buf = shapeBytes(buf, sh)
	raw := string(buf[start:])
	switch sh.name {
	case "sym":
		return buf, dtok{kind: tkSym, sym: buf[start], raw: raw}
	case "AND":
		return buf, dtok{kind: tkAnd, raw: raw}
	case "OR":
		return buf, dtok{kind: tkOr, raw: raw}
	case "NOT":
		return buf, dtok{kind: tkNot, raw: raw}
	case "TO":
		return buf, dtok{kind: tkTo, raw: raw}
	case "plain1", "plain2":
		return buf, dtok{kind: tkTerm, tv: tvString, s: raw, raw: raw}
	case "int1":
		return buf, dtok{kind: tkTerm, tv: tvInt, i: int(buf[start] - '0'), raw: raw}
	case "int2":
		return buf, dtok{kind: tkTerm, tv: tvInt, i: int(buf[start]-'0')*10 + int(buf[start+1]-'0'), raw: raw}
	case "neg":
		return buf, dtok{kind: tkTerm, tv: tvInt, i: -int(buf[start+1] - '0'), raw: raw}
	case "float":
		return buf, dtok{kind: tkTerm, tv: tvFloat, raw: raw}
	case "wild1", "wild2", "wild3":
		return buf, dtok{kind: tkTerm, tv: tvWild, s: raw, raw: raw}
	case "esc":
		return buf, dtok{kind: tkTerm, tv: tvString, s: raw[1:], raw: raw}
	case "dq0", "dq1":
		return buf, dtok{kind: tkTerm, tv: tvString, s: raw[1 : len(raw)-1], raw: raw}
	case "sq1":
		return buf, dtok{kind: tkTerm, tv: tvSingleQuoted, s: raw[1 : len(raw)-1], raw: raw}
	case "re0", "re1":
		return buf, dtok{kind: tkTerm, tv: tvRegexp, s: raw, raw: raw}
	case "bad":
		return buf, dtok{kind: tkErr, raw: raw}
	}
	panic("unknown shape " + sh.name)
}

type deriver struct {
	t  []dtok
	df string
}

func (d *deriver) leafIs(v any, t dtok) bool {
	e := asExpr(v)
	if e == nil || e.Right != nil || t.kind != tkTerm {
		return false
	}
	switch t.tv {
	case tvString:
		return litString(e, t.s)
	case tvSingleQuoted:
		return rtOr(litString(e, t.s), litString(e, t.raw))
	case tvInt:
		return litInt(e, t.i)
	case tvFloat:
		if e.Op != expr.Literal {
			return false
		}
		f, ok := e.Left.(float64)
		return ok && f == 1.5
	case tvWild:
		return litKind(e, expr.Wild, t.s)
	case tvRegexp:
		return litKind(e, expr.Regexp, t.s)
	}
	return false
}

// columnIs: a term in field position. String-typed terms become columns named by their text.
func (d *deriver) columnIs(v any, t dtok) bool {
	e := asExpr(v)
	if e == nil || e.Right != nil || t.kind != tkTerm {
		return false
	}
	switch t.tv {
	case tvString:
		return litColumn(e, t.s)
	case tvSingleQuoted:
		return rtOr(litColumn(e, t.s), litColumn(e, t.raw))
	case tvWild, tvRegexp:
		// the pattern's text is used as the column name
		if e.Op != expr.Literal && e.Op != expr.Wild && e.Op != expr.Regexp {
			return false
		}
		c, ok := e.Left.(expr.Column)
		return ok && string(c) == t.s
	}
	return d.leafIs(v, t)
}

// fieldSpan: a field position is a term, possibly inside redundant parentheses: it returns the
// index of the term token and the index after the span that starts at i.
func (d *deriver) fieldSpan(i, limit int) (term int, end int, ok bool) {
	depth := 0
	for i < limit && symIs(d.t[i], '(') {
		depth++
		i++
	}
	if i >= limit || d.t[i].kind != tkTerm {
		return 0, 0, false
	}
	term = i
	i++
	for k := 0; k < depth; k++ {
		if i >= limit || !symIs(d.t[i], ')') {
			return 0, 0, false
		}
		i++
	}
	return term, i, true
}

// balanced: t[i] == '(' matches t[j] == ')'.
func (d *deriver) balanced(i, j int) bool {
	if !symIs(d.t[i], '(') || !symIs(d.t[j], ')') {
		return false
	}
	depth := 0
	for k := i; k <= j; k++ {
		if symIs(d.t[k], '(') {
			depth++
		} else if symIs(d.t[k], ')') {
			depth--
			if depth == 0 && k != j {
				return false
			}
		}
	}
	return depth == 0
}

func (d *deriver) isBareLeaf(e *expr.Expression) bool {
	return e.Op == expr.Literal || e.Op == expr.Wild || e.Op == expr.Regexp
}

// derives: does expression v derive exactly the tokens t[i:j)?
func (d *deriver) derives(v any, i, j int) bool {
	e := asExpr(v)
	if e == nil || j <= i {
		return false
	}
	// (E)
	if j-i >= 3 && d.balanced(i, j-1) && d.derives(v, i+1, j-1) {
		return true
	}
	switch e.Op {
	case expr.Literal, expr.Wild, expr.Regexp:
		return j == i+1 && d.leafIs(e, d.t[i])
	case expr.And:
		for k := i + 1; k < j; k++ {
			if d.t[k].kind == tkAnd && d.derives(e.Left, i, k) && d.derives(e.Right, k+1, j) {
				return true
			}
			if d.derives(e.Left, i, k) && d.derives(e.Right, k, j) { // juxtaposition
				return true
			}
		}
		return false
	case expr.Or:
		for k := i + 1; k < j-1; k++ {
			if d.t[k].kind == tkOr && d.derives(e.Left, i, k) && d.derives(e.Right, k+1, j) {
				return true
			}
		}
		return false
	case expr.Not:
		return e.Right == nil && d.t[i].kind == tkNot && d.derives(e.Left, i+1, j)
	case expr.Must:
		return e.Right == nil && symIs(d.t[i], '+') && d.derives(e.Left, i+1, j)
	case expr.MustNot:
		return e.Right == nil && symIs(d.t[i], '-') && d.derives(e.Left, i+1, j)
	case expr.Boost, expr.Fuzzy:
		c := byte('^')
		if e.Op == expr.Fuzzy {
			c = '~'
		}
		if e.Right != nil {
			return false
		}
		// default power / distance
		if symIs(d.t[j-1], c) && d.derives(e.Left, i, j-1) {
			if e.Op == expr.Fuzzy {
				return expr.VerifFuzzyDistance(e) == 1
			}
			return expr.VerifBoostPower(e) == 1.0
		}
		if j-i >= 3 && symIs(d.t[j-2], c) && d.t[j-1].kind == tkTerm && d.derives(e.Left, i, j-2) {
			n := d.t[j-1]
			if e.Op == expr.Fuzzy {
				return n.tv == tvInt && expr.VerifFuzzyDistance(e) == n.i
			}
			if n.tv == tvInt {
				return n.i > 0 && expr.VerifBoostPower(e) == float64(n.i)
			}
			return n.tv == tvFloat && expr.VerifBoostPower(e) == 1.5
		}
		return false
	case expr.Equals, expr.Like:
		// default field scoping of a bare term
		if d.df != "" && j == i+1 && litColumn(e.Left, d.df) {
			r := asExpr(e.Right)
			if r != nil && d.isBareLeaf(r) && d.leafIs(r, d.t[i]) {
				return (e.Op == expr.Like) == (r.Op != expr.Literal)
			}
		}
		ft, fe, fok := d.fieldSpan(i, j)
		if !fok || j-fe < 2 || !d.columnIs(e.Left, d.t[ft]) || !(symIs(d.t[fe], ':') || symIs(d.t[fe], '=')) {
			return false
		}
		if e.Op == expr.Like {
			r := asExpr(e.Right)
			return r != nil && (r.Op == expr.Wild || r.Op == expr.Regexp) && d.derives(r, fe+1, j)
		}
		r := asExpr(e.Right)
		if r != nil && (r.Op == expr.Wild || r.Op == expr.Regexp) {
			return false // a pattern value makes the node a LIKE
		}
		return d.derives(e.Right, fe+1, j)
	case expr.Greater, expr.Less, expr.GreaterEq, expr.LessEq:
		want := byte('>')
		if e.Op == expr.Less || e.Op == expr.LessEq {
			want = '<'
		}
		if j-i < 4 || !d.columnIs(e.Left, d.t[i]) || !symIs(d.t[i+1], ':') || !symIs(d.t[i+2], want) {
			return false
		}
		// field:>v: the operand is one term (possibly inside redundant parentheses), not a sub-query
		vs := i + 3
		if e.Op == expr.GreaterEq || e.Op == expr.LessEq {
			if j-i < 5 || !symIs(d.t[i+3], '=') {
				return false
			}
			vs = i + 4
		}
		term, end, ok := d.fieldSpan(vs, j)
		return ok && end == j && d.leafIs(e.Right, d.t[term])
	case expr.Range:
		b, ok := e.Right.(*expr.RangeBoundary)
		if !ok || b == nil || j-i != 7 {
			return false
		}
		if !d.columnIs(e.Left, d.t[i]) || !symIs(d.t[i+1], ':') || d.t[i+4].kind != tkTo {
			return false
		}
		incl := symIs(d.t[i+2], '[') && symIs(d.t[i+6], ']')
		okBr := (symIs(d.t[i+2], '[') || symIs(d.t[i+2], '{')) && (symIs(d.t[i+6], ']') || symIs(d.t[i+6], '}'))
		return okBr && incl == b.Inclusive && d.leafIs(b.Min, d.t[i+3]) && d.leafIs(b.Max, d.t[i+5])
	case expr.In:
		l := asExpr(e.Right)
		if l == nil || l.Op != expr.List || j-i < 3 || !d.columnIs(e.Left, d.t[i]) || !(symIs(d.t[i+1], ':') || symIs(d.t[i+1], '=')) {
			return false
		}
		items, ok := l.Left.([]*expr.Expression)
		if !ok || len(items) < 2 {
			return false
		}
		n, ok := d.listDerives(items, 0, i+2, j)
		return ok && n == len(items)
	}
	return false
}

// listDerives lays items[from:] over t[i:j) as an OR tree (any grouping, redundant parentheses
// allowed) of plain values; it returns the index of the first item not consumed.
func (d *deriver) listDerives(items []*expr.Expression, from, i, j int) (int, bool) {
	if j <= i {
		return from, false
	}
	if j-i >= 3 && d.balanced(i, j-1) {
		if n, ok := d.listDerives(items, from, i+1, j-1); ok {
			return n, true
		}
	}
	if j == i+1 {
		if from < len(items) && items[from].Op == expr.Literal && d.leafIs(items[from], d.t[i]) {
			return from + 1, true
		}
		return from, false
	}
	for k := i + 1; k < j-1; k++ {
		if d.t[k].kind != tkOr {
			continue
		}
		if n, ok := d.listDerives(items, from, i, k); ok {
			if m, ok2 := d.listDerives(items, n, k+1, j); ok2 {
				return m, true
			}
		}
	}
	return from, false
}
