//go:build verif

package zzverif

import (
	lucene "github.com/grindlemire/go-lucene"
)

func init() {
	register("SQLLeaf", H_SQLLeaf)
	register("SQLTree", H_SQLTree)
}

var sqlLeafForms = []int{lfEqStr, lfEqInt, lfGt, lfGe, lfLt, lfLe, lfRangeIncl, lfRangeExcl, lfRangeLo, lfRangeHi, lfRangeStr, lfList,
	lfWild, lfQuoted, lfRangeExclStr, lfRangeStrLo, lfRangeStrHi, lfRangeAll, lfRangeExclLo, lfRangeExclHi, lfListInt, lfWildMid, lfRegexp, lfFloat, lfRangeFloat, lfRangeFloatEx, lfRegexpShort, lfSpecialFloat, lfRangeComma, lfEqSpecial, lfEqBig, lfRangeBig, lfRangeMixed, lfQuotedDigits, lfRangeWildLo, lfRangeWildHi, lfWildEsc, lfWildEscWild, lfWildUnderscore, lfWildPunct, lfListMixed, lfWildEscTail, lfNonASCII3, lfWildRun, lfFloatLong, lfGtFloatLong, lfRangeSpecialLo, lfRangeSpecialHi, lfRegexpBackslash, lfListNested, lfListLeftNested, lfNumFieldRegexp, lfNumFieldWild, lfRangeQuotedSpace}

var sqlTreeOps = []int{nOr, nAnd, nNot, nMustNot, nMust}

// leafIsInt: the field of this leaf holds integers (else strings).
func leafIsInt(lf *leaf) bool {
	switch lf.form {
	case lfEqInt, lfGt, lfGe, lfLt, lfLe, lfRangeIncl, lfRangeExcl, lfRangeLo, lfRangeHi, lfRangeExclLo, lfRangeExclHi, lfListInt, lfRangeAll, lfEqBig, lfRangeBig:
		return true
	}
	return false
}

// leafEvaluable: forms whose meaning the row evaluator models (no floats, no regexps).
func leafEvaluable(lf *leaf) bool {
	switch lf.form {
	case lfRegexp, lfRegexpShort, lfFloat, lfRangeFloat, lfRangeFloatEx, lfSpecialFloat, lfRangeMixed, lfListMixed, lfRegexpBackslash, lfNumFieldRegexp, lfNumFieldWild, lfFloatLong, lfGtFloatLong, lfRangeSpecialLo, lfRangeSpecialHi:
		return false
	}
	return true
}

// globMatch: * any run, ? any one character.
func globMatch(s, pat string) bool {
	if len(pat) == 0 {
		return len(s) == 0
	}
	switch pat[0] {
	case '\\': // an escaped character stands for itself
		if len(pat) > 1 {
			return len(s) > 0 && rtAnd(s[0] == pat[1], globMatch(s[1:], pat[2:]))
		}
	case '*':
		res := false
		for k := 0; k <= len(s); k++ {
			res = rtOr(res, globMatch(s[k:], pat[1:]))
		}
		return res
	case '?':
		return len(s) > 0 && globMatch(s[1:], pat[1:])
	}
	return len(s) > 0 && rtAnd(s[0] == pat[0], globMatch(s[1:], pat[1:]))
}

// leafMeaning: the truth of the leaf on a row value, as C03 states it.
func leafMeaning(lf *leaf, x rowVal) bool {
	switch lf.form {
	case lfEqStr, lfQuoted, lfEqSpecial, lfQuotedDigits, lfNonASCII3:
		return x.s == lf.s1
	case lfEqBig:
		return x.i == lf.i1
	case lfRangeBig:
		return x.i >= lf.i1
	case lfEqInt:
		return x.i == lf.i1
	case lfGt:
		return x.i > lf.i1
	case lfGe:
		return x.i >= lf.i1
	case lfLt:
		return x.i < lf.i1
	case lfLe:
		return x.i <= lf.i1
	case lfRangeIncl:
		return rtAnd(x.i >= lf.i1, x.i <= lf.i2)
	case lfRangeExcl:
		return rtAnd(x.i > lf.i1, x.i < lf.i2)
	case lfRangeLo:
		return x.i <= lf.i1
	case lfRangeHi:
		return x.i >= lf.i1
	case lfRangeExclLo:
		return x.i < lf.i1
	case lfRangeExclHi:
		return x.i > lf.i1
	case lfRangeAll:
		return true
	case lfRangeStr, lfRangeComma, lfRangeWildLo, lfRangeWildHi, lfRangeQuotedSpace:
		return rtAnd(x.s >= lf.s1, x.s <= lf.s2)
	case lfRangeExclStr:
		return rtAnd(x.s > lf.s1, x.s < lf.s2)
	case lfRangeStrLo:
		return x.s <= lf.s1
	case lfRangeStrHi:
		return x.s >= lf.s1
	case lfList:
		return rtOr(x.s == lf.s1, x.s == lf.s2)
	case lfListNested, lfListLeftNested:
		return rtOr(x.s == lf.s1, rtOr(x.s == lf.s2, x.s == lf.s3))
	case lfListInt:
		return rtOr(x.i == lf.i1, x.i == lf.i2)
	case lfWild, lfWildMid, lfWildEsc, lfWildEscWild, lfWildUnderscore, lfWildPunct, lfWildEscTail, lfWildRun:
		return globMatch(x.s, lf.s1)
	}
	return false
}

// treeMeaning: +x means x, -x and NOT x mean not x.
func treeMeaning(n *node, row *sqlRow) bool {
	switch n.kind {
	case nLeaf:
		v, _ := row.get(n.lf.field)
		return leafMeaning(n.lf, v)
	case nAnd:
		return rtAnd(treeMeaning(n.l, row), treeMeaning(n.r, row))
	case nOr:
		return rtOr(treeMeaning(n.l, row), treeMeaning(n.r, row))
	case nNot, nMustNot:
		return rtNot(treeMeaning(n.l, row))
	case nMust:
		return treeMeaning(n.l, row)
	}
	return false
}

const rowStrCls = " !#$%&()*+,-./0123456789:;<=>?@ABCXYZ[]^_`abcdefghijklmnopqrstuvwxyz{|}~'\"\\"

// rowFor assigns a fresh symbolic value of the matching type to the field of every leaf.
func rowFor(t *node) *sqlRow {
	r := &sqlRow{}
	for _, n := range collect(t, nLeaf, nil) {
		r.names = append(r.names, n.lf.field)
		if n.lf.form == lfEqBig || n.lf.form == lfRangeBig {
			// rows around the big constant
			r.vals = append(r.vals, rowVal{isInt: true, i: n.lf.i1 + rtInt("rowdelta", -2, 2)})
		} else if leafIsInt(n.lf) {
			r.vals = append(r.vals, rowVal{isInt: true, i: rtInt("rowint", -3, 103)})
		} else {
			// a free string of 0-3 bytes, the leaf's own value, or that value with its last byte
			// replaced (rows next to the constant, whatever its length)
			ln := rtChoose("rowlen", 6)
			var b []byte
			switch {
			case ln < 4:
				b = make([]byte, ln)
				for i := range b {
					b[i] = holeByte("rowstr", rowStrCls)
				}
			case ln == 4:
				b = []byte(n.lf.s1)
			default:
				b = []byte(n.lf.s1)
				if len(b) > 0 {
					b[len(b)-1] = holeByte("rowstr", rowStrCls)
				}
			}
			r.vals = append(r.vals, rowVal{s: string(b)})
		}
	}
	return r
}

// expectedValues lists the query's values left to right as they should travel as parameters
// (patterns translated, open ends omitted), with their kinds.
type qval struct {
	isInt bool
	i     int
	s     string
	f     float64
	fs    string // the float as a normalised decimal
	isFlt bool
}

// normDec normalises a decimal number text: no trailing zeros after the point, no trailing point.
func normDec(t string) string {
	dot := -1
	for i := 0; i < len(t); i++ {
		if t[i] == '.' {
			dot = i
		}
	}
	if dot < 0 {
		return t
	}
	end := len(t)
	for end > dot+1 && t[end-1] == '0' {
		end--
	}
	if end == dot+1 {
		end = dot
	}
	return t[:end]
}

func hasOpenEnd(t *node) bool {
	for _, n := range collect(t, nLeaf, nil) {
		switch n.lf.form {
		case lfRangeLo, lfRangeHi, lfRangeStrLo, lfRangeStrHi, lfRangeAll, lfRangeExclLo, lfRangeExclHi, lfRangeBig:
			return true
		}
	}
	return false
}

func translatePattern(p string) string {
	b := []byte(p)
	for i := 0; i < len(b); i++ {
		if b[i] == '\\' { // an escaped character, wildcard or not, stays what it is
			i++
		} else if b[i] == '*' {
			b[i] = '%'
		} else if b[i] == '?' {
			b[i] = '_'
		}
	}
	return string(b)
}

func leafValues(lf *leaf) []qval {
	switch lf.form {
	case lfEqStr, lfQuoted, lfRangeStrLo, lfRangeStrHi, lfEqSpecial, lfQuotedDigits, lfNonASCII3:
		return []qval{{s: lf.s1}}
	case lfRegexpBackslash:
		return []qval{{s: lf.s1}}
	case lfFloatLong, lfGtFloatLong:
		return []qval{{isFlt: true, f: longDec(lf.d1), fs: lf.d1}}
	case lfRangeSpecialLo: // a word that spells a non-finite float is a string; the range then compares text
		return []qval{{s: lf.s1}, {isInt: true, i: lf.i1}}
	case lfRangeSpecialHi:
		return []qval{{isInt: true, i: lf.i1}, {s: lf.s1}}
	case lfEqBig, lfRangeBig:
		return []qval{{isInt: true, i: lf.i1}}
	case lfRangeMixed:
		return []qval{{isInt: true, i: lf.i1}, {isFlt: true, f: 2.5, fs: "2.5"}}
	case lfEqInt, lfGt, lfGe, lfLt, lfLe, lfRangeLo, lfRangeHi, lfRangeExclLo, lfRangeExclHi:
		return []qval{{isInt: true, i: lf.i1}}
	case lfRangeIncl, lfRangeExcl, lfListInt:
		return []qval{{isInt: true, i: lf.i1}, {isInt: true, i: lf.i2}}
	case lfRangeStr, lfRangeExclStr, lfList, lfRangeComma, lfRangeWildLo, lfRangeWildHi: // a wildcard character in a range bound is a character
		return []qval{{s: lf.s1}, {s: lf.s2}}
	case lfWild, lfWildMid, lfWildEsc, lfWildEscWild, lfWildUnderscore, lfWildPunct, lfWildEscTail, lfWildRun:
		return []qval{{s: translatePattern(lf.s1)}}
	case lfListMixed:
		return []qval{{isInt: true, i: lf.i1}, {isFlt: true, f: 2.5, fs: "2.5"}}
	case lfListNested, lfListLeftNested:
		return []qval{{s: lf.s1}, {s: lf.s2}, {s: lf.s3}}
	case lfRangeQuotedSpace:
		return []qval{{s: lf.s1}, {s: lf.s2}}
	case lfNumFieldRegexp: // the number in field position is rendered as a value
		return []qval{{isInt: true, i: int(lf.field[0] - '0')}, {s: lf.s1}}
	case lfNumFieldWild:
		return []qval{{isInt: true, i: int(lf.field[0] - '0')}, {s: translatePattern(lf.s1)}}
	case lfRegexp, lfRegexpShort:
		return []qval{{s: lf.s1}}
	case lfFloat:
		return []qval{{isFlt: true, f: 1.5, fs: "1.5"}}
	case lfSpecialFloat:
		return []qval{{s: lf.s1}} // not a finite number: the text is the value
	case lfRangeFloat:
		return []qval{{isFlt: true, f: 1.5, fs: "1.5"}, {isFlt: true, f: 2.5, fs: "2.5"}}
	case lfRangeFloatEx:
		return []qval{{isFlt: true, f: 0.001, fs: "0.001"}, {isFlt: true, f: 0.002, fs: "0.002"}}
	}
	return nil
}

func longDec(d string) float64 {
	switch d {
	case "0.123456789":
		return 0.123456789
	case "123456.789":
		return 123456.789
	}
	return 100000.001
}

func treeValues(t *node) []qval {
	var out []qval
	for _, n := range collect(t, nLeaf, nil) {
		out = append(out, leafValues(n.lf)...)
	}
	return out
}

func treeFields(t *node) []string {
	var out []string
	for _, n := range collect(t, nLeaf, nil) {
		if n.lf.form == lfNumFieldRegexp || n.lf.form == lfNumFieldWild {
			continue // a number, not a column
		}
		out = append(out, n.lf.field)
	}
	return out
}

// joinUS joins with the unit separator (for observations read by the referee).
func joinUS(xs []string) string {
	out := ""
	for i, x := range xs {
		if i > 0 {
			out += "\x1f"
		}
		out += x
	}
	return out
}

func oneOf(s string, set []string) bool {
	res := false
	for _, x := range set {
		res = rtOr(res, s == x)
	}
	return res
}

// countPlaceholders counts ? outside quoted identifiers and string constants.
func countPlaceholders(sql string) int {
	n := 0
	for _, t := range pgLex(sql) {
		if t.kind == sqParam {
			n++
		}
	}
	return n
}

// substitute writes the parameters into the placeholders with a reference serializer.
func substitute(psql string, params []any) (string, bool) {
	var out []byte
	k := 0
	inIdent, inStr := false, false
	for i := 0; i < len(psql); i++ {
		c := psql[i]
		if c == '"' && !inStr {
			inIdent = !inIdent
		} else if c == '\'' && !inIdent {
			inStr = !inStr
		}
		if c == '?' && !inIdent && !inStr {
			if k >= len(params) {
				return "", false
			}
			switch p := params[k].(type) {
			case int:
				out = append(out, intString(p)...)
			case string:
				out = append(out, sqlQuote(p)...)
			case float64:
				return "", false // float formatting is compared by value (inline-numbers-are-query-values)
			default:
				return "", false
			}
			k++
			continue
		}
		out = append(out, c)
	}
	return string(out), k == len(params)
}

// sqlChecks runs the C02 / C03 / C04 assertions for one query specification.
func sqlChecks(t *node, text string, withRows bool) {
	fields := treeFields(t)
	vals := treeValues(t)
	var strVals, numVals []string
	for _, v := range vals {
		switch {
		case v.isInt:
			numVals = append(numVals, intString(v.i))
		case v.isFlt:
			numVals = append(numVals, v.fs)
		default:
			strVals = append(strVals, v.s)
		}
	}
	if hasOpenEnd(t) {
		strVals = append(strVals, "*") // the open end is written * in the query
	}
	sql, err := lucene.ToPostgres(text)
	inFragment := true
	mixedBounds := false // a range with a number and a string bound: only the confinement clauses (C02) apply
	for _, n := range collect(t, nLeaf, nil) {
		switch n.lf.form {
		case lfRegexp, lfRegexpShort, lfSpecialFloat, lfRegexpBackslash, lfNumFieldRegexp, lfNumFieldWild:
			inFragment = false
		case lfRangeSpecialLo, lfRangeSpecialHi:
			inFragment = false
			mixedBounds = true
		}
	}
	if inFragment {
		rtAssert("fragment-renders", err == nil) // C03: ToPostgres succeeds on the filterable fragment
	}
	psql, params, perr := lucene.ToParameterizedPostgres(text)
	rtAssert("inline-ok-implies-param-ok", err != nil || perr == nil) // C04
	if rtParam("SEQ") == 1 { // the two renderers agree in whatever order they are called
		sqlAgain, errAgain := lucene.ToPostgres(text)
		rtAssert("inline-same-after-param", (err == nil) == (errAgain == nil) && sql == sqlAgain)
	}
	if err != nil {
		return
	}
	rtObserve("sql", sql)
	rtObserve("fields", joinUS(fields))
	rtObserve("strvals", joinUS(strVals))
	// --- C02: one confined boolean expression, user text only in literals
	ast, nparamInline, ok := pgParse(sql)
	if ok {
		rtObserve("sqlmodel", "ok")
	} else {
		rtObserve("sqlmodel", "bad")
	}
	rtAssert("inline-confined", ok && nparamInline == 0)
	if ok {
		var cols, strs, nums []string
		ast.collect(&cols, &strs, &nums)
		allCols, allStrs := true, true
		for _, c := range cols {
			allCols = rtAnd(allCols, oneOf(c, fields))
		}
		for _, s := range strs {
			allStrs = rtAnd(allStrs, oneOf(s, strVals))
		}
		allNums := true
		for _, x := range nums {
			allNums = rtAnd(allNums, oneOf(normDec(x), numVals))
		}
		rtAssert("inline-columns-are-query-fields", allCols)
		rtAssert("inline-strings-are-query-values", allStrs)
		rtAssert("inline-numbers-are-query-values", allNums)
	}
	if perr == nil {
		rtObserve("psql", psql)
		past, np, pok := pgParse(psql)
		if pok {
			rtObserve("psqlmodel", "ok")
		} else {
			rtObserve("psqlmodel", "bad")
		}
		rtAssert("param-confined", pok)
		if pok {
			var cols, strs, nums []string
			past.collect(&cols, &strs, &nums)
			allCols := true
			for _, c := range cols {
				allCols = rtAnd(allCols, oneOf(c, fields))
			}
			rtAssert("param-columns-are-query-fields", allCols)
			// --- C04: all values travel as parameters
			onlyStars := true
			for _, x := range strs {
				onlyStars = rtAnd(onlyStars, x == "*") // an open range end is not a value
			}
			rtAssert("param-no-inline-values", onlyStars && len(nums) == 0)
			rtAssert("param-count", np == len(params))
		}
		// parameters are the query's values, left to right, with their kinds
		same := len(params) == len(vals)
		if same {
			for i, v := range vals {
				switch p := params[i].(type) {
				case int:
					same = rtAnd(same, v.isInt && p == v.i)
				case string:
					same = rtAnd(same, !v.isInt && !v.isFlt && p == v.s)
				case float64:
					same = rtAnd(same, v.isFlt && p == v.f)
				default:
					same = false
				}
			}
		}
		rtAssert("param-values-in-order", same)
		if sub, sok := substitute(psql, params); sok && !mixedBounds {
			// compared as SQL trees, not as text: formatting of the inline SQL is free
			sast, _, sok2 := pgParse(sub)
			if ok && sok2 {
				rtAssert("param-substitution-equals-inline", sqlTreeEqual(sast, ast))
			} else if ok {
				rtAssert("param-substitution-equals-inline", false)
			}
		}
	}
	// --- C03: the predicate PostgreSQL reads is true on exactly the rows the query means
	if withRows && ok {
		evaluable := true
		for _, n := range collect(t, nLeaf, nil) {
			if !leafEvaluable(n.lf) {
				evaluable = false
			}
		}
		if evaluable {
			row := rowFor(t)
			ev := &sqlEval{row: row}
			got := ev.eval(ast)
			rtAssert("sql-well-typed", !ev.illTyped) // no condition used as a value, no constant used as a condition
			if ev.bad {
				rtReach("sql-eval-unsupported")
			} else {
				rtAssert("sql-means-query", got == treeMeaning(t, row))
			}
			if perr == nil {
				if past, _, pok := pgParse(psql); pok {
					pev := &sqlEval{row: row, params: params}
					pgot := pev.eval(past)
					if !pev.bad && !ev.bad {
						rtAssert("param-means-inline", pgot == got)
					}
				}
			}
		}
	}
	rtReach("end")
}

// H_SQLLeaf: one leaf of every form, all constants and the row value symbolic.
func H_SQLLeaf() {
	concreteFields, nextField = rtParam("CONCRETE") == 1, 0
	signedInts, oneDigitInts = true, false
	form := sqlLeafForms[rtParam("FORM")]
	t := genLeaf([]int{form})
	rtTag("form=" + leafNames[form])
	text := printNode(t, 0, &printOpts{})
	rtObserve("text", text)
	sqlChecks(t, text, rtParam("NOROWS") == 0)
}

// H_SQLTree: boolean structure over the filterable fragment.
func H_SQLTree() {
	concreteFields, nextField = true, 0
	signedInts = rtParam("SIGNED") == 1
	oneDigitInts = rtParam("ONEDIGIT") == 1
	var forms []int
	if rtParam("LEAVES") == 3 {
		// parameter order in nestings: ranges, lists and strings next to each other
		forms = []int{lfRangeIncl, lfListInt, lfEqStr}
	} else if rtParam("LEAVES") == 0 {
		forms = []int{lfEqInt}
	} else if rtParam("LEAVES") == 2 {
		forms = []int{lfEqInt, lfGt}
	} else {
		forms = []int{lfEqInt, lfLe, lfRangeIncl, lfEqStr, lfListInt}
	}
	ops := sqlTreeOps
	if rtParam("OPS") == 1 {
		ops = []int{nOr, nNot, nAnd}
	}
	t := genTree(rtParam("D"), ops, forms)
	text := printNode(t, 0, &printOpts{})
	rtObserve("text", text)
	sqlChecks(t, text, rtParam("NOROWS") == 0)
}

func init() { register("ParamIndependent", H_ParamIndependent) }

// freshCopy re-instantiates every leaf with new symbolic values of the same kinds.
func freshCopy(n *node) *node {
	if n == nil {
		return nil
	}
	c := &node{kind: n.kind, num: n.num, hasNum: n.hasNum, l: freshCopy(n.l), r: freshCopy(n.r)}
	if n.kind == nLeaf {
		saveC, saveN := concreteFields, nextField
		c.lf = genLeaf([]int{n.lf.form}).lf
		concreteFields, nextField = saveC, saveN
		c.lf.field = n.lf.field
	}
	return c
}

// H_ParamIndependent (C04, 2-safety): the SQL text of the parameterized form does not depend on
// the values: two instances of the same query shape with independent values give the same text.
func H_ParamIndependent() {
	concreteFields, nextField = false, 0
	signedInts, oneDigitInts = false, false
	var t *node
	if rtParam("D") == 0 {
		t = genLeaf([]int{sqlLeafForms[rtParam("FORM")]})
		rtTag("form=" + leafNames[t.lf.form])
	} else {
		t = genTree(rtParam("D"), sqlTreeOps, []int{lfEqInt, lfEqStr, lfRangeIncl, lfWild, lfList})
	}
	u := freshCopy(t)
	q1 := printNode(t, 0, &printOpts{})
	q2 := printNode(u, 0, &printOpts{})
	rtObserve("q1", q1)
	rtObserve("q2", q2)
	s1, p1, e1 := lucene.ToParameterizedPostgres(q1)
	s2, p2, e2 := lucene.ToParameterizedPostgres(q2)
	rtAssert("same-outcome-for-same-kinds", (e1 == nil) == (e2 == nil))
	if e1 != nil || e2 != nil {
		return
	}
	rtAssert("sql-text-independent-of-values", s1 == s2)
	rtAssert("param-count-independent-of-values", len(p1) == len(p2))
	rtReach("end")
}

func init() { register("IdentConfined", H_IdentConfined) }

// H_IdentConfined (C02, identifiers): whatever bytes a field name carries (through escapes or a
// quoted phrase), ToPostgres either fails or renders exactly one quoted identifier that
// PostgreSQL decodes to that name.
func H_IdentConfined() {
	var text, name []byte
	if rtParam("MODE") == 0 {
		units := rtParam("UNITS")
		for u := 0; u < units; u++ {
			if rtChoose("unit", 2) == 0 {
				b := holeByte("w", plainWordCls)
				if u == 0 {
					rtAssume(rtNot(rtIn(b, "0123456789")))
				}
				text, name = append(text, b), append(name, b)
			} else {
				b := rtByte("e")
				text, name = append(text, '\\', b), append(name, b)
			}
		}
	} else {
		n := rtParam("UNITS")
		text = append(text, '"')
		for i := 0; i < n; i++ {
			b := rtByte("q")
			rtAssume(b != '"')
			text, name = append(text, b), append(name, b)
		}
		text = append(text, '"')
	}
	// what follows the field name: equality, a numeric range, a comparison, a list, a pattern
	tails := []string{":v", ":[1 TO 5]", ":>3", ":(v OR w)", ":v*", ":{1.5 TO 2.5}"}
	tail := tails[rtParam("TAIL")]
	q := string(text) + tail
	rtObserve("query", q)
	rtObserve("fields", string(name))
	rtObserve("strvals", "v\x1fw\x1fv%")
	sql, err := lucene.ToPostgres(q)
	if err != nil {
		rtReach("rejected")
	} else {
		rtObserve("sql", sql)
		ast, _, ok := pgParse(sql)
		if ok {
			rtObserve("sqlmodel", "ok")
		} else {
			rtObserve("sqlmodel", "bad")
		}
		rtAssert("ident-confined", ok)
		if ok {
			// every column reference is the name, every constant one of the tail's constants
			var cols, strs, nums []string
			ast.collect(&cols, &strs, &nums)
			good := len(cols) >= 1
			for _, c := range cols {
				good = rtAnd(good, c == string(name))
			}
			for _, x := range strs {
				good = rtAnd(good, oneOf(x, []string{"v", "w", "v%"}))
			}
			for _, x := range nums {
				good = rtAnd(good, oneOf(normDec(x), []string{"1", "5", "3", "1.5", "2.5"}))
			}
			rtAssert("ident-is-the-name", good)
			rtAssert("ident-nonempty", len(name) > 0)
		}
	}
	psql, params, perr := lucene.ToParameterizedPostgres(q)
	rtAssert("ident-same-outcome", (err == nil) == (perr == nil))
	rtAssert("inline-ok-implies-param-ok", err != nil || perr == nil) // C04's direction
	if perr == nil {
		rtObserve("psql", psql)
		ast, np, ok := pgParse(psql)
		rtAssert("ident-param-confined", ok && np == len(params))
		if ok {
			var cols, strs, nums []string
			ast.collect(&cols, &strs, &nums)
			good := len(cols) >= 1 && len(strs) == 0 && len(nums) == 0
			for _, c := range cols {
				good = rtAnd(good, c == string(name))
			}
			rtAssert("ident-param-is-the-name", good)
		}
	}
	rtReach("end")
}

func init() { register("ValueConfined", H_ValueConfined) }

// H_ValueConfined (C02, C04): pattern and regexp values carrying arbitrary ASCII bytes (through
// escapes): whatever they contain, the inline SQL is exactly "f" <op> '<one constant>' and the
// parameterized SQL is "f" <op> ? with the same value as its only parameter.
func H_ValueConfined() {
	units := rtParam("UNITS")
	var text []byte
	if rtParam("MODE") == 0 {
		// a bare word with wildcards: units are word bytes, escaped bytes, or * / ?
		hasWild := false
		for u := 0; u < units; u++ {
			switch rtChoose("unit", 3) {
			case 0:
				b := holeByte("w", plainWordCls)
				if u == 0 {
					rtAssume(rtNot(rtIn(b, "0123456789iInN")))
				}
				text = append(text, b)
			case 1:
				b := rtByte("e") // any byte value, NUL and invalid UTF-8 included
				text = append(text, '\\', b)
			default:
				text = append(text, holeByte("wc", "*?"))
				hasWild = true
			}
		}
		if !hasWild {
			rtAssume(false)
			return
		}
	} else if rtParam("MODE") == 2 {
		// a value list whose second item is a quoted phrase of arbitrary bytes
		text = append(text, "(v OR \""...)
		for u := 0; u < units; u++ {
			b := rtByte("q")
			rtAssume(b != '"')
			text = append(text, b)
		}
		text = append(text, '"', ')')
	} else {
		text = append(text, '/')
		for u := 0; u < units; u++ {
			if rtChoose("unit", 2) == 0 {
				b := rtByte("r") // any byte value except the delimiter and the escape
				rtAssume(rtAnd(b != '/', b != '\\'))
				text = append(text, b)
			} else {
				b := rtByte("e")
				text = append(text, '\\', b)
			}
		}
		text = append(text, '/')
	}
	q := "f:" + string(text)
	rtObserve("query", q)
	rtObserve("fields", "f")
	sql, err := lucene.ToPostgres(q)
	psql, params, perr := lucene.ToParameterizedPostgres(q)
	rtAssert("inline-ok-implies-param-ok", err != nil || perr == nil)
	if err != nil {
		rtReach("rejected")
		return
	}
	rtObserve("sql", sql)
	ast, _, ok := pgParse(sql)
	if rtParam("MODE") == 2 {
		// the list renders as IN over string constants, or as one equality; either way one confined expression
		rtAssert("value-confined", ok && (ast.kind == qIn || ast.kind == qCmp) && ast.a.kind == qCol && ast.a.text == "f")
		rtReach("end")
		return
	}
	good := ok && (ast.kind == qSimilar || ast.kind == qRegex || ast.kind == qCmp) && ast.a.kind == qCol && ast.b.kind == qStr
	if good {
		rtObserve("strvals", ast.b.text)
		rtObserve("sqlmodel", "ok")
	}
	rtAssert("value-confined", good && ast.a.text == "f")
	if !good || perr != nil {
		return
	}
	rtObserve("psql", psql)
	past, np, pok := pgParse(psql)
	pgood := pok && np == 1 && len(params) == 1 && past.kind == ast.kind && past.a.kind == qCol && past.b.kind == qParam
	rtAssert("value-param-confined", pgood)
	if pgood {
		pv, isStr := params[0].(string)
		rtAssert("value-param-equals-inline-constant", isStr && pv == ast.b.text)
	}
	rtReach("end")
}
