//go:build verif

package zzverif

import (
	"unicode"
	"unicode/utf8"
	lucene "github.com/grindlemire/go-lucene"
	"github.com/grindlemire/go-lucene/internal/lex"
)

func init() {
	register("LexSegment", H_LexSegment)
}

func isSpaceByte(b byte) bool { return b == ' ' || b == '\t' || b == '\r' || b == '\n' }

func allSpace(s string) bool {
	for i := 0; i < len(s); i++ {
		if !isSpaceByte(s[i]) {
			return false
		}
	}
	return true
}

// lexShapes: the token shapes of the K tier plus shapes that stress the lexer: words with dots and
// dashes, a trailing backslash, escapes in front of multi-byte runes, escaped delimiters,
// unterminated phrases and regexps, characters that cannot start a token, non-ASCII words.
var lexExtraShapes = []shape{
	{"dotword", []string{"@lower", ".", "@lower"}}, {"dashword", []string{"@lower", "-", "@digit"}},
	{"trailesc", []string{"@lower", "\\"}}, {"q-esc-mb", []string{"\"", "\\", "@lead2", "@cont", "\""}},
	{"re-esc", []string{"/", "\\", "/", "@lower", "/"}}, {"re-bs", []string{"/", "@lower", "\\\\", "/"}}, {"re-bs2", []string{"/", "\\\\", "/"}}, {"mbword", []string{"@lead2", "@cont", "@lower"}},
	{"q-open", []string{"\"", "@lower"}}, {"re-open", []string{"/", "@lower"}}, {"badchar", []string{"@bad"}},
	{"minus-mb", []string{"-", "@lead2", "@cont"}}, {"esc-mb", []string{"\\", "@lead2", "@cont"}},
	{"q-crlf", []string{"\"", "@lower", "\r\n", "@lower", "\""}}, {"re-crlf", []string{"/", "\r\n", "/"}}, {"esc-cr", []string{"@lower", "\\", "\r"}},
}

func init() {
	classes["@lead2"] = "\xc3\xd0\xd9\xc2"
	classes["@cont"] = "\x80\x85\xa0\xa3\xa9\xbf"
	register("LexTokens", H_LexTokens)
}

// H_LexTokens (C16): the segmentation oracle on sequences of K token shapes (longer inputs than
// the byte tier can reach, with symbolic literal bytes).
func H_LexTokens() {
	k := rtParam("K")
	all := append(append([]shape{}, narrowShapes...), lexExtraShapes...)
	var buf []byte
	for i := 0; i < k; i++ {
		c := rtChoose("shape", len(all))
		if i > 0 {
			switch rtChoose("gap", 4) {
			case 0:
				buf = append(buf, ' ')
			case 1:
				buf = append(buf, '\t', '\n')
			case 2:
				buf = append(buf, '\r', '\n')
			}
		}
		buf = shapeBytes(buf, all[c])
	}
	lexSegmentChecks(string(buf))
}

// H_LexSegment (C16): for every byte string of length N the token stream is a lossless
// segmentation, Peek agrees with Next and has no effect, EOF is sticky.
func H_LexSegment() {
	lexSegmentChecks(string(rtBytes("in", rtParam("N"))))
}

// refLexError is an independent reading of the token rules, for ASCII inputs only (known = false
// otherwise): does the input contain a character that cannot start a token, a quote that is not
// closed by the same quote character, or a regexp whose closing slash is missing?
func refLexError(in string) (hasErr bool, known bool) {
	// invalid UTF-8 is left to the lexer's own verdict
	for i := 0; i < len(in); {
		r, w := utf8.DecodeRuneInString(in[i:])
		if r == utf8.RuneError && w == 1 {
			return false, false
		}
		i += w
	}
	wordRune := func(r rune) bool {
		return r == '_' || unicode.IsLetter(r) || unicode.IsDigit(r)
	}
	i := 0
	for i < len(in) {
		r, w := utf8.DecodeRuneInString(in[i:])
		nextIsDigit := false
		if i+w < len(in) {
			r2, _ := utf8.DecodeRuneInString(in[i+w:])
			nextIsDigit = unicode.IsDigit(r2)
		}
		switch {
		case r == ' ' || r == '\t' || r == '\r' || r == '\n':
			i += w
		case wordRune(r) || r == '*' || r == '?' || r == '\\' || (r == '-' && nextIsDigit):
			for i < len(in) {
				c, cw := utf8.DecodeRuneInString(in[i:])
				if c == '\\' {
					i += cw
					if i < len(in) { // the escaped character belongs to the word, whatever it is
						_, ew := utf8.DecodeRuneInString(in[i:])
						i += ew
					}
				} else if wordRune(c) || c == '*' || c == '?' || c == '.' || c == '-' {
					i += cw
				} else {
					break
				}
			}
		case r < 0x80 && rtIn(byte(r), "()[]{}:+=>~^<-"):
			i += w
		case r == '"' || r == '\'':
			j := i + 1
			for j < len(in) && in[j] != byte(r) {
				j++
			}
			if j >= len(in) {
				return true, true
			}
			i = j + 1
		case r == '/':
			j := i + 1
			for j < len(in) && in[j] != '/' {
				if in[j] == '\\' {
					j++
					if j < len(in) { // the escape takes one character, of whatever width
						_, ew := utf8.DecodeRuneInString(in[j:])
						j += ew - 1
					}
				}
				j++
			}
			if j >= len(in) {
				return true, true
			}
			i = j + 1
		default:
			return true, true // a character no token can start with
		}
	}
	return false, true
}

func lexSegmentChecks(in string) {
	n := len(in)
	rtObserve("in", in)
	if refErr, known := refLexError(in); known && refErr {
		_, perr := lucene.Parse(in)
		rtAssert("ref-lex-error-fails-parse", perr != nil)
	}
	l, ref := lex.Lex(in), lex.Lex(in)
	cur := 0
	for i := 0; i <= n+1; i++ {
		pk := l.Peek()
		t := l.Next()
		r := ref.Next()
		rtObserveInt("typ", int(t.Typ))
		if t.Typ != lex.TErr {
			rtObserve("val", t.Val)
		}
		rtAssert("peek=next", pk.Typ == t.Typ && (t.Typ == lex.TErr || pk.Val == t.Val))
		rtAssert("peek-no-effect", t.Typ == r.Typ && (t.Typ == lex.TErr || t.Val == r.Val))
		if t.Typ == lex.TEOF || t.Typ == lex.TErr {
			for j := 0; j < 3; j++ {
				rtAssert("eof-forever", l.Next().Typ == lex.TEOF)
				rtAssert("eof-forever-peek", l.Peek().Typ == lex.TEOF)
			}
			if t.Typ == lex.TEOF {
				rtAssert("all-consumed", allSpace(in[cur:]))
				rtReach("eof")
			} else {
				rtReach("err")
				// a lexical error (bad character, unterminated quote or regexp) makes Parse fail
				_, perr := lucene.Parse(in)
				rtAssert("lex-error-fails-parse", perr != nil)
			}
			rtReach("end")
			return
		}
		for cur < n && isSpaceByte(in[cur]) {
			cur++
		}
		ok := len(t.Val) > 0 && cur+len(t.Val) <= n
		rtAssert("text-fits", ok)
		if !ok {
			return
		}
		rtAssert("text", in[cur:cur+len(t.Val)] == t.Val)
		cur += len(t.Val)
	}
	rtAssert("finite", false)
}
