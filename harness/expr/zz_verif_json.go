//go:build verif

package expr

// A pure-Go stand-in for the two encoding/json entry points this package uses, restricted to the
// types that occur here. The symbolic engine redirects json.Marshal / json.Unmarshal to these
// functions (encoding/json itself is reflection-driven and cannot be interpreted); the natively
// built code keeps using the real encoding/json, so every natively replayed path compares this
// stand-in with the real package.

import (
	"encoding/json"
	"errors"
	"math"
	"strconv"
	"unicode/utf8"
)

var errVJSyntax = errors.New("verif json: syntax error")
var errVJType = errors.New("verif json: cannot unmarshal into Go value of that type")
var errVJUnsupported = errors.New("verif json: unsupported value")

const vjHex = "0123456789abcdef"

func vjSafe(b byte) bool {
	return b >= 0x20 && b != '"' && b != '\\' && b != '<' && b != '>' && b != '&'
}

// vjQuote follows encoding/json's appendString with escapeHTML = true.
func vjQuote(dst []byte, s string) []byte {
	dst = append(dst, '"')
	for i := 0; i < len(s); {
		b := s[i]
		if b < utf8.RuneSelf {
			if vjSafe(b) {
				dst = append(dst, b)
				i++
				continue
			}
			switch b {
			case '\\', '"':
				dst = append(dst, '\\', b)
			case '\b':
				dst = append(dst, '\\', 'b')
			case '\f':
				dst = append(dst, '\\', 'f')
			case '\n':
				dst = append(dst, '\\', 'n')
			case '\r':
				dst = append(dst, '\\', 'r')
			case '\t':
				dst = append(dst, '\\', 't')
			default:
				dst = append(dst, '\\', 'u', '0', '0', vjHex[b>>4], vjHex[b&0xF])
			}
			i++
			continue
		}
		n := len(s) - i
		if n > utf8.UTFMax {
			n = utf8.UTFMax
		}
		c, size := utf8.DecodeRuneInString(s[i : i+n])
		if c == utf8.RuneError && size == 1 {
			dst = append(dst, '\\', 'u', 'f', 'f', 'f', 'd')
			i += size
			continue
		}
		if c == 0x2028 || c == 0x2029 {
			dst = append(dst, '\\', 'u', '2', '0', '2', vjHex[c&0xF])
			i += size
			continue
		}
		dst = append(dst, s[i:i+size]...)
		i += size
	}
	return append(dst, '"')
}

func vjFloat(dst []byte, f float64) ([]byte, error) {
	if f != f || f > 1.7976931348623157e308 || f < -1.7976931348623157e308 {
		return dst, errVJUnsupported
	}
	// integer-valued floats of moderate size print as their digits
	if f < 1e14 && f > -1e14 && f == float64(int64(f)) {
		if f == 0 && math.Signbit(f) {
			return append(dst, "-0"...), nil
		}
		return strconv.AppendInt(dst, int64(f), 10), nil
	}
	abs := f
	if abs < 0 {
		abs = -abs
	}
	format := byte('f')
	if abs != 0 && (abs < 1e-6 || abs >= 1e21) {
		format = 'e'
	}
	b := strconv.AppendFloat(nil, f, format, -1, 64)
	if format == 'e' {
		n := len(b)
		if n >= 4 && b[n-4] == 'e' && b[n-3] == '-' && b[n-2] == '0' {
			b[n-2] = b[n-1]
			b = b[:n-1]
		}
	}
	return append(dst, b...), nil
}

// vjCompact validates src and copies it without insignificant white space, escaping <, >, & and
// U+2028/9 the way encoding/json does for the output of a Marshaler.
func vjCompact(dst, src []byte) ([]byte, error) {
	end, ok := vjValue(src, vjSkipWS(src, 0), 0)
	if !ok || vjSkipWS(src, end) != len(src) {
		return dst, errVJSyntax
	}
	inStr := false
	for i := 0; i < len(src); i++ {
		c := src[i]
		if inStr {
			if c == '\\' {
				dst = append(dst, c, src[i+1])
				i++
				continue
			}
			if c == '"' {
				inStr = false
			}
		} else {
			if c == ' ' || c == '\t' || c == '\r' || c == '\n' {
				continue
			}
			if c == '"' {
				inStr = true
			}
		}
		if c == '<' || c == '>' || c == '&' {
			dst = append(dst, '\\', 'u', '0', '0', vjHex[c>>4], vjHex[c&0xF])
			continue
		}
		if c == 0xE2 && i+2 < len(src) && src[i+1] == 0x80 && src[i+2]&^1 == 0xA8 {
			dst = append(dst, '\\', 'u', '2', '0', '2', vjHex[src[i+2]&0xF])
			i += 2
			continue
		}
		dst = append(dst, c)
	}
	return dst, nil
}

// VerifJSONMarshal stands in for json.Marshal.
func VerifJSONMarshal(v any) ([]byte, error) {
	return vjMarshal(nil, v)
}

func vjMarshalerOutput(dst []byte, b []byte, err error) ([]byte, error) {
	if err != nil {
		return dst, err
	}
	return vjCompact(dst, b)
}

func vjMarshal(dst []byte, v any) ([]byte, error) {
	switch x := v.(type) {
	case nil:
		return append(dst, "null"...), nil
	case string:
		return vjQuote(dst, x), nil
	case Column:
		return vjQuote(dst, string(x)), nil
	case bool:
		if x {
			return append(dst, "true"...), nil
		}
		return append(dst, "false"...), nil
	case int:
		return strconv.AppendInt(dst, int64(x), 10), nil
	case float64:
		return vjFloat(dst, x)
	case *Expression:
		if x == nil {
			return append(dst, "null"...), nil
		}
		b, err := x.MarshalJSON()
		return vjMarshalerOutput(dst, b, err)
	case Expression:
		b, err := x.MarshalJSON()
		return vjMarshalerOutput(dst, b, err)
	case []*Expression:
		if x == nil {
			return append(dst, "null"...), nil
		}
		dst = append(dst, '[')
		for i, e := range x {
			if i > 0 {
				dst = append(dst, ',')
			}
			var err error
			dst, err = vjMarshal(dst, e)
			if err != nil {
				return dst, err
			}
		}
		return append(dst, ']'), nil
	case *RangeBoundary:
		if x == nil {
			return append(dst, "null"...), nil
		}
		return vjMarshal(dst, *x)
	case RangeBoundary:
		var err error
		dst = append(dst, `{"min":`...)
		if dst, err = vjMarshal(dst, x.Min); err != nil {
			return dst, err
		}
		dst = append(dst, `,"max":`...)
		if dst, err = vjMarshal(dst, x.Max); err != nil {
			return dst, err
		}
		dst = append(dst, `,"inclusive":`...)
		if x.Inclusive {
			dst = append(dst, "true"...)
		} else {
			dst = append(dst, "false"...)
		}
		return append(dst, '}'), nil
	case json.RawMessage:
		if x == nil {
			return append(dst, "null"...), nil
		}
		return vjCompact(dst, x)
	case jsonExpression:
		var err error
		dst = append(dst, `{"left":`...)
		if dst, err = vjMarshal(dst, x.Left); err != nil {
			return dst, err
		}
		dst = append(dst, `,"operator":`...)
		dst = vjQuote(dst, x.Operator)
		if len(x.Right) > 0 {
			dst = append(dst, `,"right":`...)
			if dst, err = vjMarshal(dst, x.Right); err != nil {
				return dst, err
			}
		}
		if x.RangeBoundary != nil {
			dst = append(dst, `,"boundaries":`...)
			if dst, err = vjMarshal(dst, x.RangeBoundary); err != nil {
				return dst, err
			}
		}
		if x.FuzzyDistance != nil {
			dst = append(dst, `,"distance":`...)
			dst = strconv.AppendInt(dst, int64(*x.FuzzyDistance), 10)
		}
		if x.BoostPower != nil {
			dst = append(dst, `,"power":`...)
			if dst, err = vjFloat(dst, *x.BoostPower); err != nil {
				return dst, err
			}
		}
		return append(dst, '}'), nil
	case map[string]any, []any:
		return dst, errVJUnsupported // generic containers only arise from decoded range bounds
	}
	return dst, errVJUnsupported
}

// ---------------------------------------------------------------------------------------------
// validation (the grammar encoding/json's scanner accepts)

func vjIsWS(c byte) bool { return c == ' ' || c == '\t' || c == '\r' || c == '\n' }

func vjSkipWS(d []byte, i int) int {
	for i < len(d) && vjIsWS(d[i]) {
		i++
	}
	return i
}

func vjIsDigit(c byte) bool { return c >= '0' && c <= '9' }

func vjIsHex(c byte) bool {
	return (c >= '0' && c <= '9') || (c >= 'a' && c <= 'f') || (c >= 'A' && c <= 'F')
}

// vjString scans a string literal starting at d[i] == '"'; returns the index after it.
func vjString(d []byte, i int) (int, bool) {
	i++
	for i < len(d) {
		c := d[i]
		switch {
		case c == '"':
			return i + 1, true
		case c == '\\':
			if i+1 >= len(d) {
				return i, false
			}
			e := d[i+1]
			switch e {
			case 'b', 'f', 'n', 'r', 't', '\\', '/', '"':
				i += 2
			case 'u':
				if i+5 >= len(d) || !vjIsHex(d[i+2]) || !vjIsHex(d[i+3]) || !vjIsHex(d[i+4]) || !vjIsHex(d[i+5]) {
					return i, false
				}
				i += 6
			default:
				return i, false
			}
		case c < 0x20:
			return i, false
		default:
			i++
		}
	}
	return i, false
}

func vjNumber(d []byte, i int) (int, bool) {
	if i < len(d) && d[i] == '-' {
		i++
	}
	if i >= len(d) {
		return i, false
	}
	if d[i] == '0' {
		i++
	} else if d[i] >= '1' && d[i] <= '9' {
		for i < len(d) && vjIsDigit(d[i]) {
			i++
		}
	} else {
		return i, false
	}
	if i < len(d) && d[i] == '.' {
		i++
		if i >= len(d) || !vjIsDigit(d[i]) {
			return i, false
		}
		for i < len(d) && vjIsDigit(d[i]) {
			i++
		}
	}
	if i < len(d) && (d[i] == 'e' || d[i] == 'E') {
		i++
		if i < len(d) && (d[i] == '+' || d[i] == '-') {
			i++
		}
		if i >= len(d) || !vjIsDigit(d[i]) {
			return i, false
		}
		for i < len(d) && vjIsDigit(d[i]) {
			i++
		}
	}
	return i, true
}

func vjWord(d []byte, i int, w string) (int, bool) {
	if i+len(w) > len(d) {
		return i, false
	}
	for k := 0; k < len(w); k++ {
		if d[i+k] != w[k] {
			return i, false
		}
	}
	return i + len(w), true
}

// vjValue scans one value starting at d[i] (no leading white space); returns the index after it.
func vjValue(d []byte, i int, depth int) (int, bool) {
	if i >= len(d) || depth > 10000 {
		return i, false
	}
	switch c := d[i]; {
	case c == '{':
		i = vjSkipWS(d, i+1)
		if i < len(d) && d[i] == '}' {
			return i + 1, true
		}
		for {
			if i >= len(d) || d[i] != '"' {
				return i, false
			}
			var ok bool
			if i, ok = vjString(d, i); !ok {
				return i, false
			}
			i = vjSkipWS(d, i)
			if i >= len(d) || d[i] != ':' {
				return i, false
			}
			i = vjSkipWS(d, i+1)
			if i, ok = vjValue(d, i, depth+1); !ok {
				return i, false
			}
			i = vjSkipWS(d, i)
			if i < len(d) && d[i] == ',' {
				i = vjSkipWS(d, i+1)
				continue
			}
			if i < len(d) && d[i] == '}' {
				return i + 1, true
			}
			return i, false
		}
	case c == '[':
		i = vjSkipWS(d, i+1)
		if i < len(d) && d[i] == ']' {
			return i + 1, true
		}
		for {
			var ok bool
			if i, ok = vjValue(d, i, depth+1); !ok {
				return i, false
			}
			i = vjSkipWS(d, i)
			if i < len(d) && d[i] == ',' {
				i = vjSkipWS(d, i+1)
				continue
			}
			if i < len(d) && d[i] == ']' {
				return i + 1, true
			}
			return i, false
		}
	case c == '"':
		return vjString(d, i)
	case c == 't':
		return vjWord(d, i, "true")
	case c == 'f':
		return vjWord(d, i, "false")
	case c == 'n':
		return vjWord(d, i, "null")
	case c == '-' || vjIsDigit(c):
		return vjNumber(d, i)
	}
	return i, false
}

// ---------------------------------------------------------------------------------------------
// decoding

func vjHexVal(c byte) rune {
	switch {
	case c >= '0' && c <= '9':
		return rune(c - '0')
	case c >= 'a' && c <= 'f':
		return rune(c-'a') + 10
	}
	return rune(c-'A') + 10
}

func vjU4(d []byte) rune {
	return vjHexVal(d[0])<<12 | vjHexVal(d[1])<<8 | vjHexVal(d[2])<<4 | vjHexVal(d[3])
}

// vjUnquote decodes a validated string literal d (including its quotes).
func vjUnquote(d []byte) string {
	var out []byte
	i := 1
	for i < len(d)-1 {
		c := d[i]
		switch {
		case c == '\\':
			e := d[i+1]
			switch e {
			case 'b':
				out = append(out, '\b')
				i += 2
			case 'f':
				out = append(out, '\f')
				i += 2
			case 'n':
				out = append(out, '\n')
				i += 2
			case 'r':
				out = append(out, '\r')
				i += 2
			case 't':
				out = append(out, '\t')
				i += 2
			case 'u':
				r := vjU4(d[i+2 : i+6])
				i += 6
				if r >= 0xD800 && r < 0xE000 {
					// surrogate: needs a following low surrogate escape
					if r < 0xDC00 && i+5 < len(d)-1+1 && i+5 <= len(d)-1 && d[i] == '\\' && d[i+1] == 'u' {
						r2 := vjU4(d[i+2 : i+6])
						if r2 >= 0xDC00 && r2 < 0xE000 {
							r = (r-0xD800)<<10 | (r2 - 0xDC00) + 0x10000
							i += 6
							out = utf8.AppendRune(out, r)
							continue
						}
					}
					r = utf8.RuneError
				}
				out = utf8.AppendRune(out, r)
			default: // \\ \/ \"
				out = append(out, e)
				i += 2
			}
		case c < utf8.RuneSelf:
			out = append(out, c)
			i++
		default:
			r, size := utf8.DecodeRune(d[i : len(d)-1])
			if r == utf8.RuneError && size == 1 {
				out = append(out, 0xEF, 0xBF, 0xBD) // U+FFFD
			} else {
				out = append(out, d[i:i+size]...)
			}
			i += size
		}
	}
	return string(out)
}

func vjFoldEq(key string, name string) bool {
	if len(key) != len(name) {
		return false
	}
	for i := 0; i < len(key); i++ {
		c := key[i]
		if c >= 'A' && c <= 'Z' {
			c += 'a' - 'A'
		}
		if c != name[i] {
			return false
		}
	}
	return true
}

// vjField finds the struct field a JSON key addresses: exact match first, then ASCII case folding
// (keys with non-ASCII bytes could match through Unicode folding in encoding/json: not modelled).
func vjField(key string, names []string) int {
	for i, n := range names {
		if key == n {
			return i
		}
	}
	for i := 0; i < len(key); i++ {
		if key[i] >= utf8.RuneSelf {
			verifNonASCIIKey()
		}
	}
	for i, n := range names {
		if vjFoldEq(key, n) {
			return i
		}
	}
	return -1
}

// verifNonASCIIKey marks inputs outside the model (the engine cuts the path here).
func verifNonASCIIKey() {}

// vjMembers iterates over the members of the validated object d[i:] (d[i] == '{'), calling
// f(key, valueStart, valueEnd); it returns the index after the object.
func vjMembers(d []byte, i int, f func(key string, vs, ve int)) int {
	i = vjSkipWS(d, i+1)
	if d[i] == '}' {
		return i + 1
	}
	for {
		ke, _ := vjString(d, i)
		key := vjUnquote(d[i:ke])
		i = vjSkipWS(d, ke)
		i = vjSkipWS(d, i+1) // ':'
		ve, _ := vjValue(d, i, 0)
		f(key, i, ve)
		i = vjSkipWS(d, ve)
		if d[i] == ',' {
			i = vjSkipWS(d, i+1)
			continue
		}
		return i + 1 // '}'
	}
}

func vjIsNull(d []byte, vs, ve int) bool {
	return ve-vs == 4 && d[vs] == 'n'
}

// vjGeneric decodes a value into the generic representation encoding/json uses for interface{}.
func vjGeneric(d []byte, vs, ve int) (any, error) {
	switch c := d[vs]; {
	case c == '"':
		return vjUnquote(d[vs:ve]), nil
	case c == 't':
		return true, nil
	case c == 'f':
		return false, nil
	case c == 'n':
		return nil, nil
	case c == '{':
		m := map[string]any{}
		var ferr error
		vjMembers(d, vs, func(key string, s, e int) {
			v, err := vjGeneric(d, s, e)
			if err != nil && ferr == nil {
				ferr = err
			}
			m[key] = v
		})
		return m, ferr
	case c == '[':
		out := []any{}
		i := vjSkipWS(d, vs+1)
		for d[i] != ']' {
			e, _ := vjValue(d, i, 0)
			v, err := vjGeneric(d, i, e)
			if err != nil {
				return nil, err
			}
			out = append(out, v)
			i = vjSkipWS(d, e)
			if d[i] == ',' {
				i = vjSkipWS(d, i+1)
			}
		}
		return out, nil
	}
	f, err := strconv.ParseFloat(string(d[vs:ve]), 64)
	if err != nil {
		return nil, errVJType
	}
	return f, nil
}

// VerifJSONUnmarshal stands in for json.Unmarshal.
func VerifJSONUnmarshal(data []byte, v any) error {
	vs := vjSkipWS(data, 0)
	ve, ok := vjValue(data, vs, 0)
	if !ok || vjSkipWS(data, ve) != len(data) {
		return errVJSyntax
	}
	return vjDecode(data, vs, ve, v)
}

var vjExprFields = []string{"left", "operator", "right", "boundaries", "distance", "power"}
var vjBoundaryFields = []string{"min", "max", "inclusive"}

func vjDecode(d []byte, vs, ve int, v any) error {
	switch t := v.(type) {
	case *Expression:
		if t == nil {
			return errVJType
		}
		return t.UnmarshalJSON(d[vs:ve])
	case *string:
		if vjIsNull(d, vs, ve) {
			return nil
		}
		if d[vs] != '"' {
			return errVJType
		}
		*t = vjUnquote(d[vs:ve])
		return nil
	case *any:
		g, err := vjGeneric(d, vs, ve)
		if err != nil {
			return err
		}
		*t = g
		return nil
	case *[]any:
		if vjIsNull(d, vs, ve) {
			*t = nil
			return nil
		}
		if d[vs] != '[' {
			return errVJType
		}
		g, err := vjGeneric(d, vs, ve)
		if err != nil {
			return err
		}
		*t = g.([]any)
		return nil
	case *[]json.RawMessage:
		if vjIsNull(d, vs, ve) {
			*t = nil
			return nil
		}
		if d[vs] != '[' {
			return errVJType
		}
		out := []json.RawMessage{}
		i := vjSkipWS(d, vs+1)
		for d[i] != ']' {
			e, _ := vjValue(d, i, 0)
			raw := make([]byte, e-i)
			copy(raw, d[i:e])
			out = append(out, json.RawMessage(raw))
			i = vjSkipWS(d, e)
			if d[i] == ',' {
				i = vjSkipWS(d, i+1)
			}
		}
		*t = out
		return nil
	case *RangeBoundary:
		if vjIsNull(d, vs, ve) {
			return nil
		}
		if d[vs] != '{' {
			return errVJType
		}
		var ferr error
		vjMembers(d, vs, func(key string, s, e int) {
			switch vjField(key, vjBoundaryFields) {
			case 0:
				g, err := vjGeneric(d, s, e)
				if err != nil && ferr == nil {
					ferr = err
				}
				t.Min = g
			case 1:
				g, err := vjGeneric(d, s, e)
				if err != nil && ferr == nil {
					ferr = err
				}
				t.Max = g
			case 2:
				switch {
				case vjIsNull(d, s, e):
				case d[s] == 't':
					t.Inclusive = true
				case d[s] == 'f':
					t.Inclusive = false
				default:
					if ferr == nil {
						ferr = errVJType
					}
				}
			}
		})
		return ferr
	case *jsonRangeBoundary:
		if vjIsNull(d, vs, ve) {
			return nil
		}
		if d[vs] != '{' {
			return errVJType
		}
		var ferr error
		vjMembers(d, vs, func(key string, s, e int) {
			switch vjField(key, vjBoundaryFields) {
			case 0:
				raw := make([]byte, e-s)
				copy(raw, d[s:e])
				t.Min = raw
			case 1:
				raw := make([]byte, e-s)
				copy(raw, d[s:e])
				t.Max = raw
			case 2:
				switch {
				case vjIsNull(d, s, e):
				case d[s] == 't':
					t.Inclusive = true
				case d[s] == 'f':
					t.Inclusive = false
				default:
					if ferr == nil {
						ferr = errVJType
					}
				}
			}
		})
		return ferr
	case *jsonExpression:
		if vjIsNull(d, vs, ve) {
			return nil
		}
		if d[vs] != '{' {
			return errVJType
		}
		var ferr error
		vjMembers(d, vs, func(key string, s, e int) {
			switch vjField(key, vjExprFields) {
			case 0:
				raw := make([]byte, e-s)
				copy(raw, d[s:e])
				t.Left = raw
			case 1:
				switch {
				case vjIsNull(d, s, e):
				case d[s] == '"':
					t.Operator = vjUnquote(d[s:e])
				default:
					if ferr == nil {
						ferr = errVJType
					}
				}
			case 2:
				raw := make([]byte, e-s)
				copy(raw, d[s:e])
				t.Right = raw
			case 3:
				switch {
				case vjIsNull(d, s, e):
					t.RangeBoundary = nil
				case d[s] == '{':
					if t.RangeBoundary == nil {
						t.RangeBoundary = &RangeBoundary{}
					}
					if err := vjDecode(d, s, e, t.RangeBoundary); err != nil && ferr == nil {
						ferr = err
					}
				default:
					if ferr == nil {
						ferr = errVJType
					}
				}
			case 4:
				switch {
				case vjIsNull(d, s, e):
					t.FuzzyDistance = nil
				case d[s] == '-' || vjIsDigit(d[s]):
					n, err := strconv.ParseInt(string(d[s:e]), 10, 64)
					if err != nil {
						if ferr == nil {
							ferr = errVJType
						}
					} else {
						if t.FuzzyDistance == nil {
							t.FuzzyDistance = new(int)
						}
						*t.FuzzyDistance = int(n)
					}
				default:
					if ferr == nil {
						ferr = errVJType
					}
				}
			case 5:
				switch {
				case vjIsNull(d, s, e):
					t.BoostPower = nil
				case d[s] == '-' || vjIsDigit(d[s]):
					f, err := strconv.ParseFloat(string(d[s:e]), 64)
					if err != nil {
						if ferr == nil {
							ferr = errVJType
						}
					} else {
						if t.BoostPower == nil {
							t.BoostPower = new(float64)
						}
						*t.BoostPower = f
					}
				default:
					if ferr == nil {
						ferr = errVJType
					}
				}
			}
		})
		return ferr
	}
	// e.Left / e.Right are interface values holding *Expression
	return errVJType
}
