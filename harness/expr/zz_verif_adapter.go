//go:build verif

package expr

// Accessors for the two unexported operator-specific fields (verification harness only).

func VerifBoostPower(e *Expression) float64 { return e.boostPower }
func VerifFuzzyDistance(e *Expression) int  { return e.fuzzyDistance }
