//go:build verif

package main

import "github.com/grindlemire/go-lucene/zzverif"

func main() { zzverif.Main() }
