#!/usr/bin/env python3
"""Regenerates MANIFEST.json from the table below (claimed checks) and properties.jsonl."""
import json, os
here = os.path.dirname(os.path.abspath(__file__))
ids = [json.loads(l)['id'] for l in open(os.path.join(here, 'properties.jsonl'))]
claims = json.load(open(os.path.join(here, 'claims.json')))
checks = []
for pid in ids:
    c = claims.get(pid)
    if not c or c.get('not_applicable'):
        continue
    checks.append({
        "property_id": pid,
        "quick_cmd": "./check.sh %s quick" % pid,
        "thorough_cmd": "./check.sh %s thorough" % pid,
        "evidence_file": "/verif/evidence/%s.json" % pid,
        "replay_cmd_template": "bin/vcheck replay {path}",
        "engine": "gosym",
        "level_claimed": {"category": "model_checking", "text": c["text"], "design_ref": c.get("design_ref", "DESIGN.md section 6")},
        "level_note": c["note"],
        "technique": c.get("technique", "bounded symbolic execution of the real code (go/ssa -> SMT, z3), counterexamples replayed natively"),
    })
na = [{"property_id": pid, "reason": (claims.get(pid) or {}).get("not_applicable", "check not built yet (build in progress); see DESIGN.md")} for pid in ids if pid not in [c["property_id"] for c in checks]]
m = {
    "version": 1,
    "setup_cmd": "./setup.sh",
    "hooks": {
        "guard": "verif",
        "enable": "harness files under /verif/harness are injected into the build of /repo by -overlay (go build / go/packages) under build tag verif; nothing is committed in /repo for hooks",
        "baseline_off_cmd": "cd /repo && GOWORK=off GOFLAGS= go test -vet=off -count=1 ./... && cd fuzz && GOFLAGS= go test -vet=off -count=1 ./...",
        "source_commits": [],
        "add_only": True,
    },
    "engines": [{"name": "gosym", "path": "/verif/engine", "serves_properties": [c["property_id"] for c in checks],
                 "kind_free_text": "own symbolic executor for Go SSA (go/ssa of /repo's working tree, rebuilt every run) with z3 deciding every branch; native twin for replay"}],
    "checks": checks,
    "not_applicable": na,
    "notes": "All checks share one engine (bin/vcheck). Known genuine defects are listed in known_findings.json.",
}
json.dump(m, open(os.path.join(here, 'MANIFEST.json'), 'w'), indent=1)
print("checks:", [c["property_id"] for c in checks])
